import warnings; warnings.simplefilter('ignore')
import logging; logging.disable(logging.CRITICAL)
from cpppo.history import timestamp, duration
from cpppo.history.times import pytz
import zoneinfo, datetime
for v in (-0.25, -1.5, -86400.001, 0.0005, 0.0625, 1399326141.999836, 253402300799.9994):
    try:
        t = timestamp( v ); s = t.render( ms=3 ); b = timestamp( s )
        print( v, s, b.value, abs(b.value-v) )
    except Exception as e: print( v, "EXC", e )
t = timestamp( 1414915323.123 )
for tzd in (None, True, False):
    s = t.render( tzinfo='America/Edmonton', tzdetail=tzd ); print( repr(s) )
    try: print( "  ->", timestamp( s ).value )
    except Exception as e: print( "  EXC", str(e)[:100] )
# ambiguous: 2014-11-02 01:30 MDT/MST in Edmonton: 1414913400 (MDT 01:30) and 1414917000 (MST 01:30)
for v in (1414913400.0, 1414917000.0, 1414920600.0):
    s = timestamp( v ).render( tzinfo='America/Edmonton', tzdetail=True )
    try: print( s, "->", timestamp( s ).value, v )
    except Exception as e: print( s, "EXC", str(e)[:120] )
# nonexistent parse
try: print( timestamp( '2014-03-09 02:30:00 America/Edmonton' ).value )
except Exception as e: print( "nonexist EXC", str(e)[:120] )
print( len( zoneinfo.available_timezones() ))
# precision
for p in range(0,7):
    t = timestamp( 1399326141.999836 ); print( p, t.render( ms=p ) )
print( timestamp(1.0004) < timestamp(1.0016), timestamp(1.0004) == timestamp(1.0006), str(timestamp(1.0004)), str(timestamp(1.0006)))
for td in (datetime.timedelta(microseconds=1), datetime.timedelta(seconds=1,microseconds=1500), datetime.timedelta(days=800, seconds=3, microseconds=250000), datetime.timedelta(0)):
    s = str( duration( td )); print( td, s, duration( s ).timedelta == td )

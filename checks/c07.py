"""C07 -- a Multiple Service Packet is equivalent to its requests issued one by one.

Differential monitor: the same member list is executed as one bundle on simulator A and one by one
on an identically initialised simulator B (both the real code, in-process frame pipeline); member
replies are compared byte for byte, final tag states raw value for raw value, and the bundle's
offset table is checked arithmetically.
"""
from __future__ import annotations
import struct

PROPERTY = 'C07'
META = {
    'level': 'exploration',
    'technique': 'differential runtime monitor: bundle execution vs one-by-one execution of the same requests on identically initialised simulators; byte comparison of member replies, raw state comparison, offset-table arithmetic',
    'text': 'Bundles also hold members whose own reply is partial (reads beyond the reply budget, status 0x06 with data) between small neighbours. One bundle per shard has a reply larger than 32 KiB (70..130 reads of 480 bytes, writes before and after the mark). Lists of 1..24 member requests mixing Read/Write Tag [Fragmented] and Get/Set Attribute Single, valid and CIP-failing (range, type), with overlapping ranges and duplicates so that '
            'order matters, and members naming unknown tags, are sent once as a Multiple Service Packet and once singly, from the same random initial tag state. Every member reply inside the '
            'bundle must be byte-identical to the standalone reply, the final raw tag states must be equal, the offset table must be 2+2N, +len(reply_1), ... exactly, and the bundle status must be '
            'success (or embedded-error) whatever its members do.',
    'note': 'A member whose target cannot be routed when sent alone (unknown symbol/class) has no standalone CIP reply (the encapsulation refuses it); for such members only "fails inside the bundle, '
            'state untouched, neighbours and framing unaffected" is checked.',
}
LEVEL = META['level']
RULE = ('a case = one member list executed both ways from one initial state; distinct by (configuration, initial state, bundle bytes); non-trivial = at least two members and at least one write')
ASSUMPTIONS = ['both executions use the in-process frame pipeline (bytes in, bytes out) with identical configuration and initial values']
REQUIRED = ['members:attribute-service-to-missing-object', 'members:same-class-two-instances', 'bundle:member-with-more-data-status', 'bundle:same-read-around-attribute-write', 'bundle:reply>32KiB', 'members:standard-object', 'bundles', 'members', 'members:failing', 'members:unroutable-alone', 'members:write', 'members:read', 'members:attribute-service', 'bundle:size>=10',
            'monitor:member-bytes-equal', 'monitor:state-equal', 'monitor:offset-table', 'bundle:overlapping-writes']
TIMEOUT = {'quick': 300, 'thorough': 2400}
SOFT = {'quick': 30, 'thorough': 600}


def shards(tier):
    return 4 if tier == 'quick' else 16


def init_values(rng, cfg):
    from vlib import gen
    out = {}
    for name, t, n, address in cfg:
        out[name] = gen.typed_values(rng, t, n)
    return out


def set_state(sim, cfg, values):
    done = set()
    for name, t, n, address in cfg:
        a = sim.attr[name]
        if id(a) in done:
            continue
        done.add(id(a))
        if a.scalar:
            a[0] = values[name][0]
        else:
            a[0:n] = list(values[name])


def run_bundle(ctx, cfg, members, init, wit):
    from vlib import simdrv, refcodec as rc
    # ---- A: the bundle
    simA = simdrv.Sim(cfg)
    try:
        set_state(simA, cfg, init)
        s0 = simA.state()
        bundle = {'path': {'segment': [{'class': 2}, {'instance': 1}]}, 'multiple': {'request': members}}
        stA, repA, outA = simA.cip(rc.enc_request(bundle))
        stateA = simA.state()
    finally:
        simA.close()
    if stA != 0 or repA is None:
        ctx.violation('bundle-not-answered', 'bundle of %d members: encapsulation status %r, outcome %s' % (len(members), stA, outA), wit)
        return
    # framing: service, status, count, offsets
    if repA[0] != 0x8A:
        ctx.violation('bundle-reply-wrong-service', 'bundle reply service 0x%02x' % repA[0], wit)
        return
    st, ext, off = rc.dec_status(repA, 2)
    if st not in (0x00, 0x1E):
        ctx.violation('member-failure-fails-bundle', 'bundle status 0x%02x with members %r' % (st, [sorted(m)[-1] for m in members]), wit)
        return
    body = repA[off:]
    n, = struct.unpack_from('<H', body)
    if n != len(members):
        ctx.violation('bundle-member-count', 'bundle reply has %d members, request had %d' % (n, len(members)), wit)
        return
    offs = list(struct.unpack_from('<%dH' % n, body, 2))
    slices = [body[offs[i]:(offs[i + 1] if i + 1 < n else len(body))] for i in range(n)]
    ctx.count('monitor:offset-table')
    expect = 2 + 2 * n
    for i in range(n):
        if offs[i] != expect:
            ctx.violation('bundle-offset-table-wrong', 'offset[%d] = %d, expected %d (2+2N plus lengths of the previous replies)' % (i, offs[i], expect), dict(wit, offsets=offs))
            return
        # length of member i as the reference decoder sees it: it must decode completely
        try:
            rc.dec_reply(slices[i])
        except Exception as exc:
            ctx.violation('bundle-member-undecodable', 'member %d reply %s: %r' % (i, slices[i].hex(), exc), dict(wit, offsets=offs))
            return
        expect += len(slices[i])
    # ---- B: one by one
    simB = simdrv.Sim(cfg)
    try:
        set_state(simB, cfg, init)
        if simB.state() != s0:
            ctx.inconclusive_because('initial states of the two simulators differ')
            return
        singles = []
        for m in members:
            before = simB.state()
            stB, repB, outB = simB.cip(rc.enc_request(m))
            singles.append((stB, repB, outB, before == simB.state()))
        stateB = simB.state()
    finally:
        simB.close()
    ctx.count('bundles')
    ctx.count('members', len(members))
    if len(members) >= 10:
        ctx.count('bundle:size>=10')
    for i, (m, (stB, repB, outB, unchanged)) in enumerate(zip(members, singles)):
        kind = next(k for k in ('read_tag', 'read_frag', 'write_tag', 'write_frag', 'get_attribute_single', 'set_attribute_single', 'get_attributes_all', 'get_attribute_list') if k in m)
        ctx.count('members:' + ('write' if kind.startswith('write') else 'read' if kind.startswith('read') else 'attribute-service'))
        inb = rc.dec_reply(slices[i])
        if inb['status'] not in (0, 6):
            ctx.count('members:failing')
        if stB != 0 or repB is None:
            # not routable alone: inside the bundle it must simply fail, and must not have touched anything
            ctx.count('members:unroutable-alone')
            if inb['status'] in (0, 6):
                ctx.violation('unroutable-member-succeeds-in-bundle', 'member %d %r is refused by the encapsulation when sent alone but succeeds inside the bundle' % (i, m), wit)
                return
            if not unchanged:
                ctx.violation('refused-single-changed-state', 'member %d %r refused alone but state changed' % (i, m), wit)
                return
            continue
        ctx.count('monitor:member-bytes-equal')
        if bytes(slices[i]) != bytes(repB):
            ctx.violation('member-reply-differs-from-standalone', 'member %d %r: in bundle %s, alone %s' % (i, m, slices[i][:40].hex(), repB[:40].hex()), wit)
            return
    ctx.count('monitor:state-equal')
    if stateA != stateB or [type(x) for x in flat(stateA)] != [type(x) for x in flat(stateB)]:
        diff = [k for k in stateA if stateA[k] != stateB[k]]
        ctx.violation('final-state-differs', 'after the bundle tags %r differ from the one-by-one execution' % diff, wit)
        return
    writes = [(m['path']['segment'][0].get('symbolic', '').lower()) for m in members if 'write_tag' in m or 'write_frag' in m]
    if len(writes) != len(set(writes)):
        ctx.count('bundle:overlapping-writes')
    nontrivial = len(members) >= 2 and bool(writes)
    ctx.case((repr(cfg), repr(init)[:200], rc.enc_request(bundle)), nontrivial=nontrivial)
    if ctx.want_sample() and len(members) in (2, 3):
        ctx.sample({'members': members, 'bundle_reply': repA[:120], 'offsets': offs})


def flat(state):
    for k in sorted(state):
        v = state[k]
        for x in (v if isinstance(v, list) else [v]):
            yield x


def big_bundle(ctx, rng):
    """a bundle whose reply is larger than 32 KiB: the 16-bit offsets of the later members no longer fit a signed word"""
    cfg = [('BigD', 'DINT', 300, None), ('W', 'INT', 4, None)]
    k = rng.choice([70, 90, 130])
    members = [{'path': {'segment': [{'symbolic': 'BigD'}, {'element': rng.randrange(0, 180)}]}, 'read_tag': {'elements': 120}} for _ in range(k)]
    members.insert(rng.randrange(3), {'path': {'segment': [{'symbolic': 'W'}]}, 'write_tag': {'type': 0xC3, 'elements': 2, 'data': [7, 8]}})
    members.append({'path': {'segment': [{'symbolic': 'W'}, {'element': 2}]}, 'write_tag': {'type': 0xC3, 'elements': 2, 'data': [rng.randrange(1000), 9]}})
    members.append({'path': {'segment': [{'symbolic': 'W'}]}, 'read_tag': {'elements': 4}})
    init = init_values(rng, cfg)
    ctx.count('bundle:reply>32KiB')
    run_bundle(ctx, cfg, members, init, {'config': cfg, 'initial': init, 'members': members[:3] + ['... %d reads of 480 bytes ...' % k] + members[-2:], 'big': True})


def partial_bundle(ctx, rng):
    """members whose own reply is partial: a read of more bytes than one reply carries is answered with status 0x06 *and* type and
    data; inside a bundle it must be the same reply, and its neighbours must be located after it"""
    cfg = [('BigD', 'DINT', 300, None), ('Byt', 'SINT', 700, None), ('W', 'INT', 4, None)]
    small = {'path': {'segment': [{'symbolic': 'W'}]}, 'read_tag': {'elements': 4}}
    pool = [{'path': {'segment': [{'symbolic': 'BigD'}]}, 'read_tag': {'elements': rng.choice([123, 200, 300])}},
            {'path': {'segment': [{'symbolic': 'BigD'}, {'element': rng.randrange(0, 100)}]}, 'read_frag': {'elements': 200, 'offset': 0}},
            {'path': {'segment': [{'symbolic': 'BigD'}]}, 'read_frag': {'elements': 200, 'offset': 488}},
            {'path': {'segment': [{'symbolic': 'Byt'}]}, 'read_frag': {'elements': 700, 'offset': 0}},
            {'path': {'segment': [{'symbolic': 'Byt'}]}, 'read_frag': {'elements': 700, 'offset': 488}},
            {'path': {'segment': [{'symbolic': 'Byt'}, {'element': 100}]}, 'read_tag': {'elements': 600}}]
    members = [small]
    for m in rng.sample(pool, rng.choice([1, 2, 3])):
        members += [m, rng.choice([small, {'path': {'segment': [{'symbolic': 'W'}, {'element': 1}]}, 'write_tag': {'type': 0xC3, 'elements': 2, 'data': [rng.randrange(1000), 5]}}])]
    init = init_values(rng, cfg)
    ctx.count('bundle:member-with-more-data-status')
    run_bundle(ctx, cfg, members, init, {'config': cfg, 'initial': {'W': init['W']}, 'members': members, 'partial': True})


def rc_types():
    from vlib import refcodec as rc
    return rc.TYPES


def run(ctx):
    from vlib import reqgen
    rng = ctx.rng
    n = 120 if ctx.tier == 'quick' else 10**7
    big_bundle(ctx, rng)
    for _ in range(3 if ctx.tier == 'quick' else 40):
        partial_bundle(ctx, rng)
    for i in range(n):
        if ctx.expired():
            break
        cfg = reqgen.gen_config(rng, ntags=rng.choice([1, 2, 3]), sizes=[1, 2, 3, 5, 8, 16])
        cfg = [(nm, t, min(s, 5) if t in ('SSTRING', 'STRING') else s, a) for nm, t, s, a in cfg]
        k = rng.choice([1, 2, 2, 3, 5, 8, 12, 24])
        members = [reqgen.gen_request(rng, cfg, p_invalid=0.35)[1] for _ in range(k)]
        # members addressed to the simulator's standard objects (Identity, TCP/IP, the Message Router's own class attributes):
        # the bundle's target must stay the bundle's target whatever a member addresses
        for _ in range(rng.choice([0, 0, 1, 2])):
            std = rng.choice([[{'class': 1}, {'instance': 1}, {'attribute': rng.choice([1, 2, 6, 7])}], [{'class': 0xF5}, {'instance': 1}, {'attribute': 6}],
                              [{'class': 2}, {'instance': 0}, {'attribute': 1}], [{'class': 1}, {'instance': 1}]])
            m = {'path': {'segment': std}, 'get_attribute_single': True} if len(std) == 3 else {'path': {'segment': std}, 'get_attributes_all': True}
            members.insert(rng.randrange(len(members) + 1), m)
            ctx.count('members:standard-object')
        if rng.random() < 0.35:
            # the same service for two instances of one class (the instance and the class-level object 0, or two instances) in one
            # bundle: each member is answered by the object it names
            cls = rng.choice([1, 1, 0xF5, 0xF6, 2, 6])
            svc = rng.choice(['get_attributes_all', 'get_attributes_all', 'get_attribute_list'])
            for ins in rng.sample([0, 1, 1, 2], 2):
                m = {'path': {'segment': [{'class': cls}, {'instance': ins}]}}
                m[svc] = True if svc == 'get_attributes_all' else [1, 2, 3]
                members.insert(rng.randrange(len(members) + 1), m)
            ctx.count('members:same-class-two-instances')
        if rng.random() < 0.35:
            # attribute services addressed to objects that do not exist (unknown class, unknown instance): refused when sent alone;
            # inside a bundle they must fail too, and must not be carried out on whatever object handles the bundle
            seg = rng.choice([[{'class': 0x77}, {'instance': 1}, {'attribute': 1}], [{'class': 1}, {'instance': 9}, {'attribute': 1}],
                              [{'class': 2}, {'instance': 7}, {'attribute': rng.choice([1, 2])}], [{'class': 0x93}, {'instance': 77}, {'attribute': 2}]])
            if rng.random() < 0.5:
                m = {'path': {'segment': seg}, 'get_attribute_single': True}
            else:
                m = {'path': {'segment': seg}, 'set_attribute_single': {'data': [rng.randrange(256) for _ in range(rng.choice([1, 2, 4, 8, 16, 20]))]}}
            members.insert(rng.randrange(len(members) + 1), m)
            ctx.count('members:attribute-service-to-missing-object')
        if rng.random() < 0.3 and len(members) > 1:
            members.append(members[rng.randrange(len(members))])      # a duplicate
        addressed = [e for e in cfg if e[3] and e[1] in rc_types()]
        if addressed and rng.random() < 0.5:
            # the same read twice in one bundle with a successful write to the same storage in between, made through ANOTHER service and
            # another spelling of the target (Set Attribute Single on the numeric address): byte-identical requests need not have identical replies
            from vlib import gen, refcodec as rc
            name, t, n_, address = rng.choice(addressed)
            rd = {'path': {'segment': [{'symbolic': name}]}, 'read_tag': {'elements': min(n_, 5)}} if rng.random() < 0.5 else \
                {'path': {'segment': [{'symbolic': name}]}, 'read_frag': {'elements': min(n_, 5), 'offset': 0}}
            cls, ins, att = [int(x, 0) for x in address.split('/')]
            raw = b''.join(rc.enc_scalar(t, v) for v in gen.typed_values(rng, t, n_))
            sas = {'path': {'segment': [{'class': cls}, {'instance': ins}, {'attribute': att}]}, 'set_attribute_single': {'data': list(raw)}}
            at = rng.randrange(len(members) + 1)
            members[at:at] = [rd, sas, dict(rd)]
            ctx.count('bundle:same-read-around-attribute-write')
        init = init_values(rng, cfg)
        wit = {'config': cfg, 'initial': {k_: v for k_, v in init.items()}, 'members': members}
        run_bundle(ctx, cfg, members, init, wit)


def replay(ctx, witness):
    cfg = [tuple(e) for e in witness['config']]
    run_bundle(ctx, cfg, witness['members'], witness['initial'], witness)
    ctx.case(('replay',))

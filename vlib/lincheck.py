"""Wing-Gong-Lowe linearizability search with memoisation, over a small sequential array model.

An operation: dict(id, proc, call, ret, kind 'w'|'r', index, values (written / returned), seq (position inside its
process, used as program order for operations that share one window, e.g. members of one bundle)).
The model state is a tuple of element values.  Returns ('ok', n_configurations) | ('violation', witness) |
('inconclusive', reason) when the step cap is exceeded.
"""
from __future__ import annotations


def apply(state, op):
    """-> (ok, new_state)"""
    i, vals = op['index'], op['values']
    if op['kind'] == 'w':
        s = list(state)
        s[i:i + len(vals)] = vals
        return True, tuple(s)
    return tuple(state[i:i + len(vals)]) == tuple(vals), state


def check(ops, initial, max_steps=400000):
    ops = sorted(ops, key=lambda o: (o['call'], o['seq']))
    n = len(ops)
    # precedence: real time (a returned before b was called) or program order of one process
    preds = []
    for b in ops:
        ps = set()
        for k, a in enumerate(ops):
            if a is b:
                continue
            if a['ret'] < b['call'] or (a['proc'] == b['proc'] and a['seq'] < b['seq']):
                ps.add(k)
        preds.append(ps)
    seen = set()
    steps = 0
    stack = [(frozenset(), tuple(initial))]
    best = 0
    while stack:
        done, state = stack.pop()
        if len(done) == n:
            return 'ok', len(seen)
        best = max(best, len(done))
        for k in range(n):
            if k in done or not preds[k] <= done:
                continue
            steps += 1
            if steps > max_steps:
                return 'inconclusive', 'step cap %d exceeded after linearizing at most %d of %d operations' % (max_steps, best, n)
            ok, ns = apply(state, ops[k])
            if not ok:
                continue
            key = (done | {k}, ns)
            if key in seen:
                continue
            seen.add(key)
            stack.append(key)
    return 'violation', {'linearized_at_most': best, 'operations': n}

"""C03 -- tags behave as typed arrays: a read returns the most recently written values.

History + executable model: request histories (encoded by vlib/refcodec.py, not by cpppo's client)
are sent to the real simulator -- in-process frame pipeline and the real main(argv) over TCP -- and
every reply plus, after every request, the full tag state is compared with vlib/arraymodel.py.
"""
from __future__ import annotations

PROPERTY = 'C03'
META = {
    'level': 'exploration',
    'technique': 'history + executable array model: every reply and the complete tag state after every request compared with an independent sequential model; requests encoded/decoded by the reference codec',
    'text': 'Also: ISO-8859-1 near-homonym tag names, a tag bound explicitly inside the automatic-allocation instance followed by automatic tags, and scripted histories over hash-confusable value pairs (-1/-2, 0/2**61-1, 1.0/2.0**61, signed zeros) read back by every service. Random configurations (all 13 element types, scalars and arrays up to 1200 elements, auto-allocated tags and tags bound to @class/instance/attribute with several tags sharing an '
            'instance, two tags aliasing one attribute, and pairs of ISO-8859-1 names such as Maß / MASS that only a too-broad caseless comparison identifies) are given to the real simulator, both through the in-process frame pipeline and through the real main(argv) tag-argument parser '
            'over TCP. Histories of Read/Write Tag [Fragmented] and Get/Set Attribute Single requests, by symbolic name (case varied) and by numeric path, at every kind of start '
            'index and count and with compatible narrower source types, are executed; each reply (status, extended status, type, data) and after each request the whole tag state '
            '(in-process inspection; over TCP additionally a second session every 10 requests) must equal the array model.',
    'note': 'Trusts vlib/arraymodel.py (~150 lines, written from the property statements) and vlib/refcodec.py. Unknown tags and hostile requests are C05/C08.',
}
LEVEL = META['level']
RULE = ('a case = one request in a history on one configuration (reply compared + full state compared); distinct by (configuration, request bytes, position); '
        'non-trivial = the request addressed an existing tag and a reply was decoded and compared')
ASSUMPTIONS = ['reply budget 488 bytes (Logix.MAX_BYTES default)', 'string arrays kept <= 5 elements (the budget arithmetic for variable-length elements is an estimate in the library)']
REQUIRED = ['requests', 'service:read_tag', 'service:read_frag', 'service:write_tag', 'service:write_frag', 'service:get_attribute_single', 'service:set_attribute_single',
            'path:symbolic', 'path:numeric', 'path:case-varied', 'tag:scalar', 'tag:array', 'tag:larger-than-one-reply', 'tag:shared-instance', 'tag:aliased-attribute', 'tag:latin1-near-homonyms', 'tag:explicit-in-allocation-instance', 'history:confusable-values',
            'status:0x00', 'status:0x06', 'status:0xff', 'monitor:state-compare', 'monitor:reply-compare', 'tcp:configs', 'tcp:second-session-compare',
            'type:' + 'STRING', 'type:BOOL', 'type:LREAL', 'type:ULINT', 'write:narrower-source-type']
TIMEOUT = {'quick': 300, 'thorough': 2400}
SOFT = {'quick': 35, 'thorough': 600}


def shards(tier):
    return 4 if tier == 'quick' else 16


def classify(ctx, cfg, req):
    c = ctx.count
    for k in ('read_tag', 'read_frag', 'write_tag', 'write_frag', 'get_attribute_single', 'set_attribute_single'):
        if k in req:
            c('service:' + k)
    segs = req['path']['segment']
    if any('symbolic' in s for s in segs):
        c('path:symbolic')
        name = '.'.join(s['symbolic'] for s in segs if 'symbolic' in s)
        if name not in [e[0] for e in cfg]:
            c('path:case-varied')
    else:
        c('path:numeric')


def run_history(ctx, cfg, nreq, tcp, script=None):
    from vlib import simdrv, reqgen, refcodec as rc, arraymodel, simcheck
    rng = ctx.rng
    model = arraymodel.Model(cfg)
    wit = {'config': cfg, 'transport': 'tcp' if tcp else 'in-process', 'history': []}
    addrs = [e[3] for e in cfg if e[3]]
    if any(e[2] == 1 for e in cfg):
        ctx.count('tag:scalar')
    if any(e[2] > 1 for e in cfg):
        ctx.count('tag:array')
    if any(e[1] in rc.TYPES and e[2] * rc.size_of(e[1]) > 488 for e in cfg):
        ctx.count('tag:larger-than-one-reply')
    if len(set(a.rsplit('/', 1)[0] for a in addrs)) < len(set(addrs)):
        ctx.count('tag:shared-instance')
    if len(set(addrs)) < len(addrs):
        ctx.count('tag:aliased-attribute')
    for e in cfg:
        ctx.count('type:' + e[1])
    sim = client = second = None
    try:
        if tcp:
            sim = simdrv.TcpSim(reqgen.argv_of(cfg))
            client = simdrv.RawClient(sim.address)
            client.register()
            second = simdrv.RawClient(sim.address)
            second.register()
            ctx.count('tcp:configs')
        else:
            sim = simdrv.Sim(cfg)
        for k in range(nreq):
            if script is not None:
                label, req = script[k]
            else:
                label, req = reqgen.gen_request(rng, cfg, p_invalid=0.2, allow_unknown=False)
            cip = rc.enc_request(req)
            wit['history'].append(req)
            if tcp:
                fr = client.rr(cip)
                st, rep_b = (fr['status'], fr.get('cip')) if fr else (None, None)
            else:
                st, rep_b, out = sim.cip(cip)
            ctx.count('requests')
            classify(ctx, cfg, req)
            if st != 0 or rep_b is None:
                ctx.violation('request-not-answered', '%s request %r on %r: encapsulation status %r, no CIP reply' % (label, req, cfg, st), dict(wit))
                return
            try:
                real = rc.dec_reply(rep_b)
            except Exception as exc:
                ctx.violation('reply-undecodable', 'reply %s to %r cannot be decoded by the reference decoder: %r' % (rep_b.hex(), req, exc), dict(wit))
                return
            want = model.apply(req)
            ctx.count('monitor:reply-compare')
            ctx.count('status:0x%02x' % real['status'])
            if label == 'write' and rc.CODE2NAME.get((req.get('write_tag') or req.get('write_frag') or {}).get('type')) != \
                    (model.find(req['path']['segment'])[0].tname if model.find(req['path']['segment'])[0] else None):
                ctx.count('write:narrower-source-type')
            mism = simcheck.reply_mismatch(real, want)
            if mism:
                key = 'reply-differs-from-array-model'
                if any('reply type' in m for m in mism):
                    key = 'reply-reports-wrong-type'
                ctx.violation(key, '%s request %r on %r (step %d, %s): %s' % (label, req, cfg, k, wit['transport'], '; '.join(mism[:3])), dict(wit))
                return
            ctx.count('monitor:state-compare')
            sm = simcheck.state_mismatch(sim.state(), model, cfg)
            if sm:
                ctx.violation('state-differs-from-array-model', 'after %s request %r on %r (step %d): %s' % (label, req, cfg, k, '; '.join(sm[:3])), dict(wit))
                return
            ctx.case((repr(cfg), cip, k, tcp))
            if tcp and k % 10 == 9:
                # the same comparison through the front door of a second session
                for name, tname, n, address in cfg:
                    cnt = min(n, 5)
                    rq = {'path': {'segment': [{'symbolic': s} for s in name.split('.')]}, 'read_tag': {'elements': cnt}}
                    fr = second.rr(rc.enc_request(rq))
                    if not fr or fr['status'] != 0:
                        ctx.violation('second-session-read-failed', 'read of %s on a second session failed: %r' % (name, fr and fr['status']), dict(wit))
                        return
                    mism = simcheck.reply_mismatch(rc.dec_reply(fr['cip']), model.apply(rq))
                    if mism:
                        ctx.violation('second-session-sees-other-values', 'second session read of %s: %s' % (name, '; '.join(mism[:3])), dict(wit))
                        return
                ctx.count('tcp:second-session-compare')
        if ctx.want_sample():
            ctx.sample({'config': reqgen.argv_of(cfg), 'transport': wit['transport'], 'first_requests': wit['history'][:3]})
    finally:
        for c in (client, second):
            if c:
                c.close()
        if sim is not None:
            (sim.stop if tcp else sim.close)()


def gen_cfg(rng, big=False, share=False, router=False):
    from vlib import reqgen
    sizes = [1, 1, 2, 3, 5, 8, 16, 40] + ([300, 700, 1200] if big else [])
    cfg = reqgen.gen_config(rng, sizes=sizes, ntags=rng.choice([3, 4, 6]) if share else None, force_sharing=share, router_instance=router)
    if big:
        cfg = cfg[:5] + [('BigOne', rng.choice(['INT', 'DINT', 'LINT', 'REAL']), rng.choice([300, 500, 700]), None)]
    return [(n, t, min(s, 5) if t in ('SSTRING', 'STRING') else s, a) for n, t, s, a in cfg]


def confusable_values(ctx, tcp=False):
    """Reads by every service after a write that replaces a value by one that is different but indistinguishable to Python's ==/hash
    (hash(-1) == hash(-2), hash(0) == hash(2**61-1), hash(1.0) == hash(2.0**61), 0.0 == -0.0): whatever the simulator remembers
    about a tag between requests must be keyed by the values themselves."""
    from vlib import refcodec as rc
    pairs = {'SINT': (-1, -2), 'INT': (-1, -2), 'DINT': (-1, -2), 'LINT': (0, 2**61 - 1), 'ULINT': (0, 2**61 - 1), 'LREAL': (1.0, 2.0 ** 61), 'REAL': (0.0, -0.0), 'UDINT': (1, 2)}
    cfg = [('Hs_' + t, t, n, '0x99/1/%d' % (k + 1)) for k, (t, n) in enumerate([('DINT', 4), ('INT', 1), ('LINT', 3), ('LREAL', 2), ('REAL', 2), ('ULINT', 2), ('SINT', 3), ('UDINT', 2)])]
    script = []
    for name, t, n, address in cfg:
        a, b = pairs[t]
        sym = [{'symbolic': name}]
        num = [{'class': 0x99}, {'instance': 1}, {'attribute': int(address.rsplit('/', 1)[1])}]
        code = rc.NAME2CODE[t]
        for first, second in ((a, b), (b, a)):
            script.append(('write', {'path': {'segment': sym}, 'write_tag': {'type': code, 'elements': n, 'data': [first] * n}}))
            script.append(('attr', {'path': {'segment': num}, 'get_attribute_single': True}))
            script.append(('read', {'path': {'segment': sym}, 'read_tag': {'elements': n}}))
            script.append(('write', {'path': {'segment': sym + [{'element': n - 1}]}, 'write_tag': {'type': code, 'elements': 1, 'data': [second]}}))
            script.append(('attr', {'path': {'segment': num}, 'get_attribute_single': True}))
            script.append(('read', {'path': {'segment': sym}, 'read_frag': {'elements': n, 'offset': 0}}))
            script.append(('attr', {'path': {'segment': num[:2]}, 'get_attributes_all': True}) if False else ('attr', {'path': {'segment': num}, 'get_attribute_single': True}))
    ctx.count('history:confusable-values')
    run_history(ctx, cfg, len(script), tcp, script=script)


def run(ctx):
    rng = ctx.rng
    quick = ctx.tier == 'quick'
    if ctx.shard == 0:
        confusable_values(ctx)
    elif ctx.shard == 1:
        confusable_values(ctx, tcp=True)
    i = 0
    while not ctx.expired():
        i += 1
        if quick and i > 14:
            break
        tcp = (i % 4 == 0)
        cfg = gen_cfg(rng, big=(i % 3 == 1), share=(i % 2 == 0), router=(i % 4 == 1))
        if i % 4 == 1:
            ctx.count('tag:explicit-in-allocation-instance')
        if i % 3 == 2:
            from vlib import reqgen
            cfg = reqgen.add_latin1_pair(rng, cfg[:4])
            ctx.count('tag:latin1-near-homonyms')
        run_history(ctx, cfg, rng.choice([30, 60, 120]) if not quick else 50, tcp)


def replay(ctx, witness):
    from vlib import simdrv, refcodec as rc, arraymodel, simcheck
    cfg = [tuple(e) for e in witness['config']]
    model = arraymodel.Model(cfg)
    sim = simdrv.Sim(cfg)
    try:
        for k, req in enumerate(witness['history']):
            st, rep_b, out = sim.cip(rc.enc_request(req))
            if st != 0 or rep_b is None:
                ctx.violation('request-not-answered', 'step %d %r: %r %r' % (k, req, st, out), witness)
                return
            mism = simcheck.reply_mismatch(rc.dec_reply(rep_b), model.apply(req))
            sm = simcheck.state_mismatch(sim.state(), model, cfg)
            if mism or sm:
                ctx.violation('reply-differs-from-array-model' if mism else 'state-differs-from-array-model', 'step %d %r: %s' % (k, req, '; '.join((mism + sm)[:3])), witness)
                return
    finally:
        sim.close()
    ctx.case(('replay',))

import os, json, shutil, tempfile, logging, gzip
import cpppo
from cpppo.history import files as hf, times as ht
from cpppo.history import timestamp, loader, logger
logging.disable(logging.CRITICAL)
class Clock:
    def __init__(s, t): s.t=t
    def __call__(s): return s.t
def run( spec, start, lookahead=0.0, factor=1.0, steps=None, corrupt=None ):
    d = tempfile.mkdtemp( dir='/tmp/probe' )
    path = os.path.join( d, 'h.hst' )
    # spec: list of files oldest..newest, each list of (ts, {reg:val}) or raw str lines
    n = len(spec)
    for i,recs in enumerate( spec ):
        e = n-1-i
        f = path + (('.%d'%e) if e else '')
        with logger( f ) as l:
            for r in recs:
                if isinstance( r, str ):
                    l._append( r )
                else:
                    l.write( r[1], now=r[0] )
    clk = Clock( 1000000.0 )
    hf.timer = clk
    ld = loader( path, historical=start, basis=clk.t, factor=factor, lookahead=lookahead )
    out=[]
    t_end = max( r[0] for recs in spec for r in recs if not isinstance(r,str) )
    k=0
    while ld and k<2000:
        cur,ev = ld.load()
        for e in ev: out.append( (round(clk.t-1000000.0,3), e['timestamp'].value, e['values']) )
        clk.t += 0.25; k+=1
    shutil.rmtree( d )
    return ld.statename[ld.state], out, ld.values
T=1700000000.0
# 1. simple
print( run( [[(T,{'1':1}),(T+1,{'1':2})],[(T+2,{'1':3}),(T+3,{'2':9})]], start=T ) )
# 2. single-record file then file starting w/ equal ts
print( run( [[(T,{'1':1})],[(T,{'1':2}),(T+1,{'1':3})],[(T+2,{'1':4})]], start=T ) )
# 3. equal ts at boundary, multi-record first file
print( run( [[(T,{'1':1}),(T+1,{'1':5})],[(T+1,{'1':2}),(T+2,{'1':3})]], start=T ) )
# 4. corrupt json line in the middle
print( run( [[(T,{'1':1}), str(timestamp(T+0.5))+'\tnull\t{"1": 7\n', (T+1,{'1':5})]], start=T ) )
# 5. corrupt timestamp in middle
print( run( [[(T,{'1':1}), '2023-11-1X 00:00:00.500\tnull\t{"1": 7}\n', (T+1,{'1':5}), (T+2,{'1':6})]], start=T ) )
# 6. comment line
print( run( [[(T,{'1':1}), '# hello\n', (T+1,{'1':5})]], start=T ) )
# 7. line without tabs
print( run( [[(T,{'1':1}), 'garbage\n', (T+1,{'1':5})]], start=T ) )

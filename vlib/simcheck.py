"""Comparison helpers shared by the simulator checks (reply vs model, state vs model)."""
from __future__ import annotations
from . import refcodec as rc
from .arraymodel import represent, same_value


def reply_mismatch(real, want):
    """real: rc.dec_reply() of the simulator's reply; want: Model.apply() result.  -> list of differences"""
    out = []
    if real['service'] != want['service']:
        out.append('service 0x%02x, expected 0x%02x' % (real['service'], want['service']))
    if want['status'] == 'fail':
        if real['status'] == 0:
            out.append('status 0x00, expected a failure indication')
        return out
    if real['status'] != want['status']:
        out.append('status 0x%02x%s, expected 0x%02x%s' % (real['status'], ext_text(real), want['status'], ext_text(want)))
        return out
    wext = (want.get('status_ext') or {}).get('data')
    rext = (real.get('status_ext') or {}).get('data')
    if wext is not None and rext != wext:
        out.append('extended status %r, expected %r' % (rext, wext))
    for key in ('read_tag', 'read_frag'):
        if key in want:
            if key not in real:
                out.append('no %s payload in reply' % key)
                continue
            if real[key]['type'] != want[key]['type']:
                out.append('reply type 0x%04x, tag type 0x%04x' % (real[key]['type'], want[key]['type']))
                continue
            tname = rc.CODE2NAME[want[key]['type']]
            a, b = real[key]['data'], want[key]['data']
            if len(a) != len(b):
                out.append('%d elements returned, expected %d' % (len(a), len(b)))
            else:
                for i, (x, y) in enumerate(zip(a, b)):
                    if not same_value(tname, x, y):
                        out.append('element +%d is %r, expected %r' % (i, x, y))
                        break
    if 'get_attribute_single' in want and want['status'] == 0:
        if real.get('get_attribute_single', {}).get('data') != want['get_attribute_single']['data']:
            out.append('attribute bytes %r, expected %r' % (real.get('get_attribute_single', {}).get('data'), want['get_attribute_single']['data']))
    if 'multiple' in want:
        rm = real.get('multiple', {}).get('request', [])
        wm = want['multiple']['request']
        if len(rm) != len(wm):
            out.append('%d member replies, expected %d' % (len(rm), len(wm)))
        else:
            for i, (x, y) in enumerate(zip(rm, wm)):
                for d in reply_mismatch(x, y):
                    out.append('member %d: %s' % (i, d))
    return out


def ext_text(d):
    e = (d.get('status_ext') or {}).get('data')
    return '' if not e else '/[%s]' % ','.join('0x%04x' % x for x in e)


def state_mismatch(sim_state, model, cfg):
    """sim_state: {name: list|scalar} of raw stored values; compared as represented in each tag's type"""
    out = []
    for name, tname, n, address in cfg:
        real = sim_state[name]
        real = list(real) if isinstance(real, (list, tuple)) else [real]
        want = model.tags[name.lower()].values
        if len(real) != len(want):
            out.append('%s has %d elements, model %d' % (name, len(real), len(want)))
            continue
        for i, (a, b) in enumerate(zip(real, want)):
            try:
                ra = represent(tname, a)
            except Exception as exc:
                out.append('%s[%d] holds %r which its type %s cannot represent (%s)' % (name, i, a, tname, type(exc).__name__))
                break
            if not same_value(tname, ra, represent(tname, b)):
                out.append('%s[%d] is %r, model %r' % (name, i, a, b))
                break
    return out

from drv import *
import random
rnd = random.Random(1)
def mk():
    return Sim( {'A': (parser.INT, [0]*6), 'B': (parser.DINT, [0]*4), 'R': (parser.REAL, [0.0]*3), 'S': (parser.SINT, 0)} )
def rndreq():
    k = rnd.choice(['rt','rf','wt','wf','bad','unk','gas'])
    if k=='rt': return read_tag( rnd.choice('AB'), rnd.randrange(0,7), rnd.randrange(0,5))
    if k=='rf': return read_frag( rnd.choice('AB'), rnd.randrange(0,5), rnd.randrange(1,5), rnd.choice([0,2,4]))
    if k=='wt': return write_tag( 'A', rnd.randrange(0,7), 0xc3, '<h', [rnd.randrange(-5,5) for _ in range(rnd.randrange(1,4))])
    if k=='wf': return write_frag( 'B', rnd.randrange(0,4), 0xc4, '<i', 3, rnd.choice([0,4]), [rnd.randrange(100) for _ in range(rnd.randrange(1,3))])
    if k=='bad': return write_tag( 'A', 0, 0xca, '<f', [1.5] )
    if k=='unk': return read_tag( 'Nope', 0, 1 )
    if k=='gas': return bytes([0x0e,0x03,0x20,0x02,0x24,0x01,0x30,0x01])
def bundle( members ):
    n=len(members); offs=[]; o=2+2*n
    for m in members: offs.append(o); o+=len(m)
    return bytes([0x0a,0x02,0x20,0x02,0x24,0x01])+struct.pack('<H',n)+b''.join(struct.pack('<H',x) for x in offs)+b''.join(members)
def unbundle( r ):
    assert r[0]==0x8a, r
    st=r[2]; n=struct.unpack_from('<H',r,4)[0]; offs=[struct.unpack_from('<H',r,6+2*i)[0] for i in range(n)]
    body=r[4:]; out=[]
    for i in range(n):
        out.append( body[offs[i]: offs[i+1] if i+1<n else len(body)] )
    return st,offs,out
diff=0
for trial in range(300):
    L=[rndreq() for _ in range(rnd.randrange(1,8))]
    a=mk(); ra = a.mr( bundle(L) ); sa=a.state()
    b=mk(); rb=[b.mr(m) for m in L]; sb=b.state()
    if not isinstance(ra,bytes): print('bundle fail', ra); diff+=1; continue
    st,offs,mem = unbundle(ra)
    exp=2+2*len(L); okoffs=True
    for o,m in zip(offs,mem):
        if o!=exp: okoffs=False
        exp+=len(m)
    for i,(x,y) in enumerate(zip(mem,rb)):
        if x!=y and not (isinstance(y,tuple)):
            diff+=1; print('MEMBER DIFF', trial, i, L[i].hex(), x.hex(), y if isinstance(y,tuple) else y.hex())
        if isinstance(y,tuple) and trial<3: print(' unroutable single', y, 'in bundle:', x.hex())
    if sa!=sb: diff+=1; print('STATE DIFF', sa, sb)
    if not okoffs or st!=0: diff+=1; print('OFFS', st, offs)
print('diff', diff)

"""C20 -- tnetstring serialisation round-trips and the streaming parser agrees with it.

Monitors: typed structural equality of parse(dump(v)) on every generated value; for the streaming
tnet_machine, payload equality + exact stop position (source.sent, untouched remainder) under every
chunking; tnet_from over a real socketpair for sequences of messages.
"""
from __future__ import annotations
import math, socket, struct, threading

PROPERTY = 'C20'
META = {
    'level': 'exploration',
    'technique': 'round-trip and differential runtime monitors: parse(dump(v)) typed equality; tnet_machine vs tnetstrings.parse under exhaustive two-way chunkings, byte-at-a-time, random k-way splits, arbitrary tails; tnet_from over a socketpair',
    'text': 'The exact-chunk feeder of tnet_from also times out before each chunk under timeout=0 polling (nothing-yet reports in the middle of a message, told apart from null messages by the feeder\'s own record). tnet_from is additionally fed exact chunks through a replaced receive function (every two-way split, byte-wise) of streams with ignored separators and payloads containing the separator; texts include characters a lenient decoder, normaliser or stripper would alter (BOM, line/paragraph separators, combining sequences, blanks). Recursively generated values (ints of any size, floats incl. inf/-0.0/nan, booleans, null, byte strings that look like length prefixes / colons / type tags, '
            'multi-byte text, lists and str-keyed dicts to depth 6, empty and 100 kB payloads) go through the real dump()/parse(); the result must be equal by value and '
            'type with nothing left over, also with a tail appended. For the types the streaming machine supports (bytes, text, int, null) the same bytes are fed to the real '
            'tnet_machine through a chainable source in every two-way split, byte-at-a-time and random k-way splits, followed by arbitrary data: the extracted payload must '
            'equal what parse() returns, source.sent must equal the message length and the remainder must be untouched; every strict prefix must yield no message. '
            'Sequences of messages are also received through the real tnet_from() loop over a socketpair with seeded segmentation, and through tnet_from with the receive function '
            'replaced by a feeder that delivers exactly chosen chunks (every two-way split, byte-at-a-time) of streams whose messages are separated by ignored newlines and whose payloads contain newlines themselves.',
    'note': 'Tuples are not generated (they dump as lists by design); dict keys are str (non-ASCII keys are counted as refused, as the module documents); trusts the 30-line typed-equality oracle.',
}
LEVEL = META['level']
RULE = ('a case = one value round-tripped, or one (message, tail, chunking) fed to the streaming machine, or one socket session; distinct by the produced bytes + chunking; '
        'non-trivial = the deciding comparison was evaluated (payload compared / position compared)')
ASSUMPTIONS = ['streaming machine judged only for the types it implements (, $ # ~); list/dict/bool/float messages are counted as unsupported']
REQUIRED = ['from:nothing-yet-reported', 'roundtrip:int', 'roundtrip:float', 'roundtrip:bool', 'roundtrip:none', 'roundtrip:bytes', 'roundtrip:str', 'roundtrip:list', 'roundtrip:dict',
            'roundtrip:depth>=4', 'roundtrip:with-tail', 'machine:runs', 'machine:two-way-splits', 'machine:bytewise', 'machine:tail-untouched',
            'machine:prefix-yields-nothing', 'machine:back-to-back', 'socket:sessions', 'socket:messages', 'from:two-way-splits', 'from:bytewise', 'from:payload-contains-separator', 'roundtrip:payload-looks-like-framing', 'roundtrip:large', 'roundtrip:shared-container-object']
TIMEOUT = {'quick': 300, 'thorough': 1800}
SOFT = {'quick': 30, 'thorough': 420}


def shards(tier):
    return 4 if tier == 'quick' else 16


# ---------------------------------------------------------------- typed equality oracle
def teq(a, b):
    if type(a) is not type(b):
        return False
    if isinstance(a, float):
        if math.isnan(a) or math.isnan(b):
            return math.isnan(a) and math.isnan(b)
        return struct.pack('<d', a) == struct.pack('<d', b)
    if isinstance(a, list):
        return len(a) == len(b) and all(teq(x, y) for x, y in zip(a, b))
    if isinstance(a, dict):
        return set(a) == set(b) and all(type(k) is str for k in b) and all(teq(a[k], b[k]) for k in a)
    return a == b


def depth(v):
    if isinstance(v, list):
        return 1 + max([depth(x) for x in v], default=0)
    if isinstance(v, dict):
        return 1 + max([depth(x) for x in v.values()], default=0)
    return 0


TRICKY_BYTES = [b'', b':', b',', b'}', b']', b'~', b'#', b'12:', b'0:~', b'3:abc,', b'5:', b'999999999:', b'1:', b'\x00', b'\xff\xfe', b'0', b'00:', b'-1:x,',
                b'4:true!', b'\n', b'1:a,1:b,', b'13:']
TEXTS = ['', 'a', 'abc', 'é', 'ж', '€', '😀', 'naïve café', '12:', ':', ',', '~', 'ключ', '\x00', 'a\nb', '漢字' * 3,
         # characters a lenient decoder, normaliser or stripper would alter: byte-order mark / zero-width no-break space first and inside, line and
         # paragraph separators, a combining sequence next to its precomposed form, trailing and leading white space, the replacement character
         '\ufeffabc', '\ufeff', 'a\ufeffb', '\ufeff\ufeff', '\u2028', 'x\u2029', 'e\u0301', '\u00e9', ' lead', 'trail ', '\t', '\r\n', '\ufffd', '\x7f', '\u0085']


def gen_scalar(rng):
    r = rng.random()
    if r < 0.25:
        return rng.choice([0, 1, -1, 9, 10, -10, 2**31 - 1, 2**31, -2**31, 2**63, -2**63 - 1, 10**30, -10**30,
                           rng.randrange(-10**6, 10**6), rng.randrange(-2**70, 2**70)])
    if r < 0.4:
        return rng.choice([0.0, -0.0, 1.5, -2.25, 1e300, -1e-300, 5e-324, float('inf'), float('-inf'), float('nan'), 0.1, 1 / 3,
                           rng.uniform(-1e6, 1e6), struct.unpack('<d', struct.pack('<Q', rng.getrandbits(64)))[0]])
    if r < 0.47:
        return rng.choice([True, False])
    if r < 0.52:
        return None
    if r < 0.78:
        if rng.random() < 0.5:
            return rng.choice(TRICKY_BYTES)
        n = rng.choice([0, 1, 2, 9, 10, 11, 99, 100, 101, 1000])
        return bytes(rng.getrandbits(8) for _ in range(n))
    if rng.random() < 0.6:
        return rng.choice(TEXTS)
    return ''.join(rng.choice('ab:,~}]#0123456789 éж€😀\n') for _ in range(rng.choice([1, 2, 5, 20])))


def gen_value(rng, d=0, maxd=6):
    r = rng.random()
    if d >= maxd or r < 0.45:
        return gen_scalar(rng)
    if r < 0.72:
        n = rng.choice([0, 1, 2, 3, 5])
        out = [gen_value(rng, d + 1, maxd) for _ in range(n)]
        shared = [x for x in out if isinstance(x, (list, dict))]
        if shared and rng.random() < 0.3:
            # the same container OBJECT a second time (a row repeated, a default record shared): finite and acyclic, equal by value
            x = rng.choice(shared)
            out.insert(rng.randrange(len(out) + 1), x)
            if rng.random() < 0.5:
                out.append([x])                     # ... and once more at another depth
        return out
    n = rng.choice([0, 1, 2, 3, 4])
    out = {}
    for _ in range(n):
        k = rng.choice(['', 'a', 'key', 'k%d' % rng.randrange(5), '12:', ':', 'a b', 'x' * 40])
        out[k] = gen_value(rng, d + 1, maxd)
    shared = [x for x in out.values() if isinstance(x, (list, dict))]
    if shared and rng.random() < 0.3:
        out['again'] = rng.choice(shared)
    return out


def describe(v, limit=160):
    s = repr(v)
    return s if len(s) <= limit else s[:limit] + '...(%d chars)' % len(s)


# ---------------------------------------------------------------- monitors
class Mon:
    def __init__(self, ctx):
        import cpppo
        from cpppo.server import tnetstrings, tnet
        self.ctx, self.cpppo, self.tns, self.tnet = ctx, cpppo, tnetstrings, tnet

    def roundtrip(self, v, tail=b''):
        ctx, tns = self.ctx, self.tns
        wit = {'value': describe(v, 2000), 'tail': tail}
        try:
            enc = tns.dump(v)
        except UnicodeEncodeError:
            ctx.count('dump:refused-non-ascii')
            return None
        except Exception as exc:
            ctx.violation('dump-raises', 'dump(%s) raised %r' % (describe(v), exc), wit)
            return None
        if type(enc) is not bytes:
            ctx.violation('dump-not-bytes', 'dump(%s) returned %r' % (describe(v), type(enc)), wit)
            return None
        wit['dump'] = enc[:4000]
        try:
            got, rem = tns.parse(enc + tail)
        except Exception as exc:
            ctx.violation('parse-raises', 'parse(dump(%s)) raised %r' % (describe(v), exc), wit)
            return enc
        ctx.case(enc + b'|' + tail)
        kind = type(v).__name__.replace('NoneType', 'none')
        ctx.count('roundtrip:' + kind)
        if depth(v) >= 4:
            ctx.count('roundtrip:depth>=4')
        if tail:
            ctx.count('roundtrip:with-tail')
        if len(enc) > 50000:
            ctx.count('roundtrip:large')
        if isinstance(v, (bytes, str)) and any(c in (v if isinstance(v, bytes) else v.encode()) for c in b':,}]~#'):
            ctx.count('roundtrip:payload-looks-like-framing')
        if not teq(got, v):
            ctx.violation('roundtrip-value-differs', 'parse(dump(%s)) returned %s' % (describe(v), describe(got)), wit)
        elif rem != tail:
            ctx.violation('roundtrip-remainder-differs', 'parse(dump(v)+tail) left %r, expected %r' % (rem[:60], tail[:60]), wit)
        return enc

    def run_machine(self, chunks, engine=None, source=None):
        """Feeds chunks the way tnet_from does: chain a chunk only when the engine yields a non-transition with an
        empty source.  Returns (terminal, payload, source, leftover_chunks)."""
        cpppo = self.cpppo
        own = engine is None
        if own:
            engine = self.tnet.tnet_machine()
        if source is None:
            source = cpppo.chainable()
        chunks = list(chunks)
        data = cpppo.dotdict()
        steps = 0
        with engine:
            for mch, sta in engine.run(source=source, data=data):
                steps += 1
                if steps > 200000 + 50 * sum(len(c) for c in chunks):
                    raise RuntimeError('no termination after %d steps' % steps)
                if sta is not None or source.peek() is not None:
                    continue
                if not chunks:
                    break               # EOF
                source.chain(chunks.pop(0))
            term = engine.terminal
        payload = data.tnet.type.input if term else None
        return term, payload, source, chunks, data

    def machine_case(self, v, enc, tail, chunks, label):
        ctx = self.ctx
        wit = {'value': describe(v, 1000), 'message': enc[:2000], 'tail': tail[:200], 'chunks': [len(c) for c in chunks][:64], 'chunking': label}
        try:
            term, payload, source, left, data = self.run_machine(chunks)
        except AssertionError as exc:
            if 'Invalid tnetstring type' in str(exc):
                ctx.count('machine:unsupported-type')
                return
            ctx.violation('machine-raises', 'tnet_machine on %r raised %r' % (enc[:60], exc), wit)
            return
        except Exception as exc:
            ctx.violation('machine-raises', 'tnet_machine on %r (%s) raised %r' % (enc[:60], label, exc), wit)
            return
        ctx.count('machine:runs')
        ctx.count('machine:' + label)
        ctx.case(('m', enc, tail, tuple(len(c) for c in chunks)))
        if not term:
            ctx.violation('machine-complete-message-not-accepted', 'complete message %r (%s) not accepted' % (enc[:60], label), wit)
            return
        if not teq(payload, v):
            ctx.violation('machine-payload-differs', 'machine extracted %s, parse() gives %s (%s)' % (describe(payload), describe(v), label), wit)
            return
        if source.sent != len(enc):
            ctx.violation('machine-stops-at-wrong-position', 'machine consumed %d symbols, message is %d long (%s)' % (source.sent, len(enc), label), wit)
            return
        # the remainder must be exactly the tail: drain what the source still holds + unfed chunks
        rest = bytearray()
        for c in left:
            source.chain(c)
        for b in source:
            rest.append(b)
        if bytes(rest) != tail:
            ctx.violation('machine-disturbs-following-data', 'after the message the stream holds %r, expected %r' % (bytes(rest)[:60], tail[:60]), wit)
            return
        if tail:
            ctx.count('machine:tail-untouched')

    def prefix_case(self, enc, cut):
        ctx = self.ctx
        try:
            term, payload, source, left, data = self.run_machine([enc[:cut]])
        except Exception:
            ctx.count('machine:prefix-raises')      # failing is allowed; delivering a message is not
            return
        ctx.count('machine:prefix-yields-nothing')
        ctx.case(('p', enc, cut))
        if term:
            ctx.violation('machine-accepts-incomplete-message', 'prefix %r of %r accepted as a message %r' % (enc[:cut][:60], enc[:60], payload),
                          {'message': enc, 'cut': cut})

    def back_to_back(self, values, rng):
        """several messages in one stream through ONE engine, as tnet_from does"""
        ctx, cpppo = self.ctx, self.cpppo
        encs = [self.tns.dump(v) for v in values]
        stream = b''.join(encs)
        cuts = sorted(rng.sample(range(1, len(stream)), min(len(stream) - 1, rng.randrange(0, 6)))) if len(stream) > 1 else []
        chunks = [stream[a:b] for a, b in zip([0] + cuts, cuts + [len(stream)])]
        wit = {'values': [describe(v, 200) for v in values], 'stream': stream[:3000], 'chunks': [len(c) for c in chunks]}
        engine = self.tnet.tnet_machine()
        source = cpppo.chainable()
        pos = 0
        for v, enc in zip(values, encs):
            try:
                term, payload, source, chunks, data = self.run_machine(chunks, engine=engine, source=source)
            except Exception as exc:
                ctx.violation('machine-raises', 'back-to-back message %r raised %r' % (enc[:40], exc), wit)
                return
            pos += len(enc)
            if not term or not teq(payload, v) or source.sent != pos:
                ctx.violation('machine-back-to-back-differs', 'message %r in a stream: terminal=%r payload=%s sent=%d expected end %d' % (
                    enc[:40], term, describe(payload), source.sent, pos), wit)
                return
        ctx.count('machine:back-to-back')
        ctx.case(('bb', stream, tuple(len(c) for c in chunks)))

    def socket_session(self, values, rng, ignore):
        ctx = self.ctx
        encs = [self.tns.dump(v) for v in values]
        sep = b'\n' if ignore else b''
        stream = sep.join(encs) + sep
        a, b = socket.socketpair()
        cuts = sorted(set(rng.randrange(1, len(stream)) for _ in range(rng.randrange(0, 8)))) if len(stream) > 1 else []
        chunks = [stream[x:y] for x, y in zip([0] + cuts, cuts + [len(stream)])]

        def writer():
            try:
                for c in chunks:
                    a.sendall(c)
                    if rng.random() < 0.3:
                        threading.Event().wait(0.002)
            finally:
                a.shutdown(socket.SHUT_WR)
        th = threading.Thread(target=writer, daemon=True)
        th.start()
        got = []
        try:
            b.settimeout(10)
            for msg in self.tnet.tnet_from(b, ('socketpair', 0), timeout=5.0, ignore=ignore):
                got.append(msg)
                if len(got) > len(values) + 3:
                    break
        except Exception as exc:
            ctx.violation('tnet-from-raises', 'tnet_from raised %r after %d messages' % (exc, len(got)),
                          {'stream': stream[:3000], 'chunks': [len(c) for c in chunks]})
            return
        finally:
            th.join(5)
            a.close()
            b.close()
        ctx.count('socket:sessions')
        ctx.count('socket:messages', len(got))
        ctx.case(('sock', stream, tuple(len(c) for c in chunks)))
        if len(got) != len(values) or not all(teq(g, v) for g, v in zip(got, values)):
            ctx.violation('tnet-from-messages-differ', 'sent %s, tnet_from yielded %s' % (describe(values, 300), describe(got, 300)),
                          {'stream': stream[:3000], 'chunks': [len(c) for c in chunks], 'ignore': bool(ignore)})


    def from_case(self, values, stream, chunks, ignore, label, gaps=False):
        """tnet_from with exactly these chunks as successive receives (the module's network.recv replaced by a feeder): the
        segmentation is then exact, which a socketpair cannot guarantee.  With gaps, the consumer polls (timeout=0) and every chunk
        is preceded by one or two receives that time out: tnet_from then reports "nothing yet" (None) in the middle of a message
        and must carry on with it afterwards.  A timeout None is told from a null message by the feeder's own record."""
        import types
        ctx = self.ctx
        feed = list(chunks)
        if gaps:
            feed = [x for c in chunks for x in ([None] * (1 + len(c) % 2) + [c])]
            label += '+receive-timeouts'
        flag = {'timeout': False}

        def recv(conn, timeout=None, **kw):
            x = feed.pop(0) if feed else b''
            flag['timeout'] = x is None
            return x
        saved = self.tnet.network
        self.tnet.network = types.SimpleNamespace(recv=recv)
        got = []
        wit = {'stream': stream[:3000], 'chunks': [len(c) for c in chunks][:100], 'ignore': bool(ignore), 'chunking': label, 'tnet_from': True, 'gaps': gaps}
        try:
            for msg in self.tnet.tnet_from(None, ('feeder', 0), timeout=0 if gaps else 5.0, ignore=ignore):
                if msg is None and flag['timeout']:
                    flag['timeout'] = False
                    ctx.count('from:nothing-yet-reported')
                    continue
                got.append(msg)
                if len(got) > len(values) + 3:
                    break
        except Exception as exc:
            ctx.violation('tnet-from-raises', 'tnet_from (%s, %d chunks) raised %r after %d messages' % (label, len(chunks), exc, len(got)), wit)
            return
        finally:
            self.tnet.network = saved
        ctx.count('from:runs')
        ctx.count('from:' + label)
        ctx.case(('from', stream, tuple(len(c) for c in chunks), bool(ignore)))
        if len(got) != len(values) or not all(teq(g, v) for g, v in zip(got, values)):
            ctx.violation('tnet-from-messages-differ', '%s: sent %s, tnet_from yielded %s' % (label, describe(values, 300), describe(got, 300)), wit)

    def from_stream(self, values, rng, ignore):
        encs = [self.tns.dump(v) for v in values]
        sep = rng.choice([b'\n', b'\n\n', b'']) if ignore else b''
        stream = sep.join(encs) + (sep if rng.random() < 0.7 else b'')
        if any(isinstance(v, (bytes, str)) and (b'\n' in (v if isinstance(v, bytes) else v.encode())) for v in values) and ignore:
            self.ctx.count('from:payload-contains-separator')
        self.from_case(values, stream, [stream], ignore, 'single-chunk')
        for cut in range(1, len(stream)):
            self.from_case(values, stream, [stream[:cut], stream[cut:]], ignore, 'two-way-splits')
            self.from_case(values, stream, [stream[:cut], stream[cut:]], ignore, 'two-way-splits', gaps=True)
        self.from_case(values, stream, [stream[j:j + 1] for j in range(len(stream))], ignore, 'bytewise')


def supported(v):
    return v is None or type(v) in (bytes, str, int)


def gen_supported(rng):
    while True:
        v = gen_scalar(rng)
        if supported(v):
            return v


def run(ctx):
    mon = Mon(ctx)
    rng = ctx.rng
    quick = ctx.tier == 'quick'
    # 1. round trips
    n = 1500 if quick else 10**7
    for i in range(n):
        if ctx.time_left() < (SOFT[ctx.tier] * 0.55):
            break
        v = gen_value(rng, 0, rng.choice([0, 1, 2, 4, 6]))
        tail = b'' if rng.random() < 0.6 else rng.choice(TRICKY_BYTES + [bytes(rng.getrandbits(8) for _ in range(5))])
        enc = mon.roundtrip(v, tail)
        if ctx.want_sample() and i % 97 == 5 and enc is not None and len(enc) < 120:
            ctx.sample({'value': describe(v), 'tnetstring': enc})
    # large containers
    row = [1, 2, 3]
    rec = {'a': 1}
    for shared_v in ([row, row], {'pump': rec, 'valve': rec}, [[0] * 4] * 50, [rec, [rec, [rec]]], [[], []][:1] * 2):
        mon.roundtrip(shared_v)
        ctx.count('roundtrip:shared-container-object')
    for big in ([0] * 30000, {('k%d' % i): i for i in range(8000)}, b'x' * 100000, 'é' * 60000, [b':' * 10] * 9000):
        if ctx.shard == 0 or not quick:
            mon.roundtrip(big)
    # 2. streaming machine
    n = 160 if quick else 10**7
    for i in range(n):
        if ctx.time_left() < (SOFT[ctx.tier] * 0.2):
            break
        v = gen_supported(rng)
        try:
            enc = mon.tns.dump(v)
        except Exception:
            continue
        if len(enc) > 300:
            v = v[:100]
            enc = mon.tns.dump(v)
        tail = rng.choice([b'', b'', b'\n', b'3:abc,', b'0:~', b':', b'9', b'x' * 7, bytes(rng.getrandbits(8) for _ in range(4))])
        whole = enc + tail
        mon.machine_case(v, enc, tail, [whole], 'single-chunk')
        # every two-way split (exhaustive)
        for cut in range(1, len(whole)):
            mon.machine_case(v, enc, tail, [whole[:cut], whole[cut:]], 'two-way-splits')
        mon.machine_case(v, enc, tail, [whole[j:j + 1] for j in range(len(whole))], 'bytewise')
        for _ in range(3):
            k = rng.randrange(2, 7)
            cuts = sorted(rng.randrange(0, len(whole) + 1) for _ in range(k))       # allows empty chunks
            # an empty chunk is not a chunking of the bytes: every real receive loop treats an empty recv as EOF
            chunks = [c for c in (whole[a:b] for a, b in zip([0] + cuts, cuts + [len(whole)])) if c]
            mon.machine_case(v, enc, tail, chunks, 'k-way-splits')
        for cut in range(0, len(enc)):
            mon.prefix_case(enc, cut)
        if ctx.want_sample() and i % 23 == 1:
            ctx.sample({'machine_message': enc, 'tail': tail, 'payload': describe(v), 'two_way_splits': max(0, len(whole) - 1)})
    # unsupported types are counted, not judged
    for v in ([1, 2], {'a': 1}, True, 1.5):
        enc = mon.tns.dump(v)
        mon.machine_case(v, enc, b'', [enc], 'single-chunk')
    # 3. several messages through one engine; 4. the real receive loop over a socketpair
    n = 60 if quick else 10**6
    for i in range(n):
        if ctx.expired():
            break
        vals = [gen_supported(rng) for _ in range(rng.randrange(1, 6))]
        vals = [v[:200] if isinstance(v, (bytes, str)) else v for v in vals]
        mon.back_to_back(vals, rng)
        if i % 3 == 0:
            mon.socket_session(vals, rng, b'\n' if rng.random() < 0.5 else None)
        if i % 2 == 0:
            # exact segmentation; payloads that contain the separator symbol themselves
            short = [v[:12] if isinstance(v, (bytes, str)) else v for v in vals[:3]]
            if rng.random() < 0.7:
                short.insert(rng.randrange(len(short) + 1), rng.choice([b'\n', b'a\nb', 'x\n', b'\n\n1', '\ny']))
            mon.from_stream(short, rng, b'\n' if rng.random() < 0.7 else None)


def replay(ctx, witness):
    # witnesses carry the produced bytes; re-run the deciding comparison on them
    mon = Mon(ctx)
    if witness.get('tnet_from'):
        stream, ignore = witness['stream'], (b'\n' if witness['ignore'] else None)
        values, rest = [], stream
        while rest.lstrip(b'\n' if ignore else b''):
            v, rest = mon.tns.parse(rest.lstrip(b'\n') if ignore else rest)
            values.append(v)
        chunks, pos = [], 0
        for n in witness['chunks']:
            chunks.append(stream[pos:pos + n])
            pos += n
        mon.from_case(values, stream, chunks, ignore, witness['chunking'].replace('+receive-timeouts', ''), gaps=bool(witness.get('gaps')))
    elif 'chunking' in witness:
        enc, tail = witness['message'], witness['tail']
        v, _ = mon.tns.parse(enc)
        whole = enc + tail
        sizes = witness['chunks']
        chunks, pos = [], 0
        for s in sizes:
            chunks.append(whole[pos:pos + s])
            pos += s
        mon.machine_case(v, enc, tail, chunks, witness['chunking'])
    elif 'cut' in witness:
        mon.prefix_case(witness['message'], witness['cut'])
    elif 'dump' in witness:
        enc = witness['dump']
        try:
            v, rem = mon.tns.parse(enc)
            mon.roundtrip(v, witness.get('tail', b''))
        except Exception as exc:
            ctx.violation('parse-raises', 'parse(%r) raised %r' % (enc[:80], exc), witness)
    ctx.case(('replay',))

import logging; logging.disable(logging.CRITICAL)
import cpppo, re, itertools, time
def run( rx, s, cls=cpppo.regex, chunks=None ):
    data = cpppo.dotdict()
    src = cpppo.chainable( s if chunks is None else b'' if isinstance(s,bytes) else '' )
    if chunks:
        for c in chunks: src.chain( c )
    try:
        m = cls( initial=rx, context='r' )
    except Exception as e:
        return ('CONSTRUCT', type(e).__name__)
    try:
        with m:
            for mm,st in m.run( source=src, data=data ):
                pass
        term = m.terminal
        exc=None
    except cpppo.NonTerminal as e:
        term=False; exc='NonTerminal'
    except Exception as e:
        term=False; exc=type(e).__name__
    inp = data.get('r.input')
    return term, exc, src.sent, (inp.tounicode() if inp is not None and inp.typecode=='u' else bytes(inp) if inp is not None else None)
for rx,s in [('a*b','aab'),('a*b','aac'),('a*','b'),('a*','aaab'),('ab|abc','abcd'),('(ab)+','ababa'),('a?b','b'),('[^a]','a'),('[^a]+','bca'),('.','x'),('a{2,3}','aaaa'),('a|','a'),('a+b?','aab'), ('(a|b)*c','abbad')]:
    print( rx, repr(s), run( rx, s ))
print( run( 'é+x', 'ééx'.encode(), cls=cpppo.regex_bytes ))
print( run( 'é|ü', 'ü'.encode(), cls=cpppo.regex_bytes ))
print( run( '[éa]', 'a'.encode(), cls=cpppo.regex_bytes ))
print( run( 'é.', 'éz'.encode(), cls=cpppo.regex_bytes ))
print( run( '.é', 'zé'.encode(), cls=cpppo.regex_bytes ))
print( run( '.é', 'üé'.encode(), cls=cpppo.regex_bytes ))
t=time.time(); n=0
for rx in ['a*b','(a|b)*c','a{2,3}b?']:
    for L in range(0,6):
        for s in itertools.product('abc',repeat=L):
            run( rx, ''.join(s) ); n+=1
print( n, time.time()-t )

"""C08 -- malformed or hostile input cannot hang, crash or corrupt the simulator.

Monitors on every hostile connection: (1) bounded progress in *logical steps* (sys.monitoring
PY_START count inside the tree, budget derived from the worst steps-per-byte of valid traffic; a
hard cap turns a would-be hang into a witness); (2) a state oracle needing no second parser: if a
tag changed, the reply stream must contain a success reply of a write service; (3) canaries: a
known-answer exchange on a long-lived session and on a brand-new session after every input, the
listener, the connection table and the thread count (live TCP part).
"""
from __future__ import annotations
import socket, struct, threading, time

PROPERTY = 'C08'
META = {
    'level': 'exploration',
    'technique': 'runtime monitors under hostile workloads: logical step budget via sys.monitoring, write-acknowledgement state oracle, and liveness canaries on other sessions; random bytes plus structure-aware mutation of every valid message kind',
    'text': 'Bursts of 3..150 registered connections receive hostile input at the same moment and end together, then the canaries. Every third live connection is ended by a reset (close with SO_LINGER 0) instead of an orderly close, after which the connection table must drain and a new connection from the same source address must be served. Each hostile input is a whole connection (Register, hostile bytes, EOF) against the real simulator: in-process through the same per-frame calls enip_srv_tcp makes (with the step meter), and '
            'live against the TCP server (containment). Inputs: random byte strings, and mutations of valid frames of every kind - bit flips, inserted/deleted/duplicated spans, truncation, and '
            'inconsistent length/count/offset fields at every nesting level (encapsulation length, CPF count and item lengths, Unconnected Send length and path sizes, symbolic length, bundle count and '
            'offsets incl. descending/overlapping/out-of-range, extended-status size, Forward Open path size), also several in sequence on one connection. Per input: steps <= budget(length) where the '
            'budget is 50x the worst steps-per-byte seen on valid traffic; only exceptions that end this one connection; any tag change must be matched by an acknowledged write in the replies; '
            'afterwards a long-lived session and a brand-new session get correct known answers, the connection table is back to baseline and the server thread count is stable.',
    'note': '"For any byte sequence" is sampled, not enumerated: a hang needing an input shape the mutators never produce is not seen. Wall-clock never decides; the step cap converts non-termination into a recorded witness.',
}
LEVEL = META['level']
RULE = ('a case = one hostile connection (valid prefix + hostile bytes + EOF) judged by all monitors; distinct by the hostile bytes; non-trivial = the input is not a valid unmodified frame sequence')
ASSUMPTIONS = ['step budget = 50 x (worst steps per byte over valid frames) x input length + 20000', 'a write is "acknowledged" by a status-0 reply of service 0xCD / 0xD3 / 0x90, alone or inside an 0x8A bundle reply']
REQUIRED = ['class:consistent-truncation', 'live:burst', 'live:connection-reset', 'inputs', 'class:random-bytes', 'class:bitflip', 'class:span-edit', 'class:truncated', 'class:length-field', 'class:bundle-offsets', 'class:sequence',
            'end:error', 'end:closed-by-server', 'end:eof', 'monitor:step-budget', 'monitor:state-oracle', 'monitor:canary-long-lived', 'monitor:canary-fresh',
            'live:inputs', 'live:listener-accepts', 'live:thread-count-stable', 'state-changed-with-acknowledged-write']
TIMEOUT = {'quick': 300, 'thorough': 2400}
SOFT = {'quick': 35, 'thorough': 900}

CFG = [('H', 'DINT', 8, None), ('G', 'INT', 4, '0x93/1/2'), ('S', 'SSTRING', 2, None), ('B', 'SINT', 3, '0x93/1/3')]


def shards(tier):
    return 4 if tier == 'quick' else 16


# ---------------------------------------------------------------- valid frames and mutators
def valid_frames(rng, session):
    """a mixed list of valid request frames (bytes) with their classification"""
    from vlib import refcodec as rc, reqgen
    out = []
    for _ in range(6):
        label, req = reqgen.gen_request(rng, CFG, p_invalid=0.15, allow_unknown=False)
        cip = rc.enc_request(req)
        out.append(rc.rr_frame(rc.enc_unconnected_send(cip), session, struct.pack('<Q', rng.getrandbits(64))))
    members = [reqgen.gen_request(rng, CFG, p_invalid=0.2, allow_unknown=False)[1] for _ in range(rng.choice([2, 3, 6]))]
    cip = rc.enc_request({'path': {'segment': [{'class': 2}, {'instance': 1}]}, 'multiple': {'request': members}})
    out.append(rc.rr_frame(rc.enc_unconnected_send(cip), session, b'BUNDLE00'))
    out.append(rc.rr_frame(cip, session, b'BUNDLE01'))
    out.append(rc.enc_frame(0x04, b'', session=session))
    out.append(rc.enc_frame(0x63, b'', session=session))
    out.append(rc.enc_frame(0x64, b'', session=session))
    out.append(rc.enc_frame(0x65, struct.pack('<HH', 1, 0)))
    fo = {'path': {'segment': [{'class': 6}, {'instance': 1}]},
          'forward_open': {'priority_time_tick': 5, 'timeout_ticks': 157, 'O_T': {'size': 500, 'type': 2, 'priority': 0, 'variable': 1, 'redundant': 0, 'RPI': 2000000, 'connection_ID': 0},
                           'T_O': {'size': 500, 'type': 2, 'priority': 0, 'variable': 1, 'redundant': 0, 'RPI': 2000000, 'connection_ID': 7}, 'connection_serial': 3, 'O_vendor': 4, 'O_serial': 5,
                           'connection_timeout_multiplier': 0, 'transport_class_triggers': 0xA3, 'connection_path': {'segment': [{'port': 1, 'link': 0}, {'class': 2}, {'instance': 1}]}}}
    out.append(rc.rr_frame(rc.enc_request(fo), session, b'FWDOPEN0'))
    out.append(rc.unit_frame(rc.enc_request({'path': {'segment': [{'symbolic': 'H'}]}, 'read_tag': {'elements': 2}}), session, 12345, 1))
    return out


LEN_VALUES = [0, 1, 2, 3, 4, 7, 8, 0x7F, 0x80, 0xFE, 0xFF]


def consistent_truncations(session=77):
    """Innermost CIP requests cut at every offset while every enclosing layer stays consistent (Unconnected Send length and pad, CPF item
    length, encapsulation length, bundle offsets): the input then starves a parser state *inside* a length-limited region whose
    limit has not been reached -- a different place from where a truncated frame or an inconsistent length field fails."""
    from vlib import refcodec as rc
    bases = [{'path': {'segment': [{'symbolic': 'H'}]}, 'read_tag': {'elements': 2}},
             {'path': {'segment': [{'symbolic': 'TAG'}]}, 'read_tag': {'elements': 1}},
             {'path': {'segment': [{'symbolic': 'H'}, {'element': 1}]}, 'write_tag': {'type': 0xC4, 'elements': 2, 'data': [5, 6]}},
             {'path': {'segment': [{'symbolic': 'G'}, {'element': 300}]}, 'read_frag': {'elements': 2, 'offset': 0}},
             {'path': {'segment': [{'class': 0x93}, {'instance': 1}, {'attribute': 2}]}, 'get_attribute_single': True},
             {'path': {'segment': [{'class': 0x400}, {'instance': 1}, {'attribute': 300}]}, 'set_attribute_single': {'data': [1, 2, 3, 4]}}]
    good = rc.enc_request({'path': {'segment': [{'symbolic': 'H'}]}, 'read_tag': {'elements': 1}})
    out = []
    for req in bases:
        cip = rc.enc_request(req)
        for cut in range(1, len(cip)):
            part = cip[:cut]
            out.append(rc.rr_frame(rc.enc_unconnected_send(part), session, b'CTRUNC%02d' % (cut % 100)))
            out.append(rc.rr_frame(part, session, b'CTRUNB%02d' % (cut % 100)))
            # as first member of a bundle whose table is consistent with the shortened member
            body = struct.pack('<HHH', 2, 6, 6 + len(part)) + part + good
            out.append(rc.rr_frame(rc.enc_unconnected_send(bytes([0x0A, 0x02, 0x20, 0x02, 0x24, 0x01]) + body), session, b'CTRUNM%02d' % (cut % 100)))
    # two fields of the Unconnected Send wrapper wrong together (sizes, priority/ticks, inner length, inner path size): a single wrong
    # field usually misaligns the rest and fails safely; a second one can make the remainder line up again
    base = rc.rr_frame(rc.enc_unconnected_send(rc.enc_request({'path': {'segment': [{'symbolic': 'H'}, {'element': 1}]}, 'write_tag': {'type': 0xC4, 'elements': 2, 'data': [666, 667]}})), session, b'TWOFIELD')
    fields = [(38, 2), (41, 1), (46, 1), (47, 1), (48, 2), (51, 1)]
    for ia in range(len(fields)):
        for ib in range(ia + 1, len(fields)):
            for va in (0, 1, 0x40, 0xFF):
                for vb in (0, 1, 0x40, 0xFF):
                    b = bytearray(base)
                    for (off, width), v in ((fields[ia], va), (fields[ib], vb)):
                        if off + width <= len(b):
                            b[off:off + width] = int(v).to_bytes(width, 'little')
                    out.append(bytes(b))
    # attribute data a byte or an element too long or too short (for a single-byte type one stray byte is one whole element)
    for att, exact, size in ((2, 8, 2), (3, 3, 1)):
        for ln in (exact - 1, exact + 1, exact + size, exact * 2, 0):
            cip = rc.enc_request({'path': {'segment': [{'class': 0x93}, {'instance': 1}, {'attribute': att}]}, 'set_attribute_single': {'data': [(5 * j + 3) % 256 for j in range(ln)]}})
            out.append(rc.rr_frame(rc.enc_unconnected_send(cip), session, b'ATTRSZ%02d' % ln))
            out.append(rc.rr_frame(cip, session, b'ATTRSB%02d' % ln))
    return out


def mutate(rng, frame):
    """-> (class label, mutated bytes)"""
    b = bytearray(frame)
    r = rng.random()
    if r < 0.18:
        for _ in range(rng.choice([1, 1, 2, 5])):
            i = rng.randrange(len(b))
            b[i] ^= 1 << rng.randrange(8)
        return 'bitflip', bytes(b)
    if r < 0.36:
        k = rng.random()
        i = rng.randrange(len(b))
        j = min(len(b), i + rng.choice([1, 2, 4, 8, 16]))
        if k < 0.33:
            del b[i:j]
        elif k < 0.66:
            b[i:i] = b[i:j]
        else:
            b[i:i] = bytes(rng.randrange(256) for _ in range(j - i))
        return 'span-edit', bytes(b)
    if r < 0.48:
        cuts = [24, 30, 32, 36, 40, 41, 42, 48, 50, 51, 52, len(b) - 1, len(b) - 2]
        t = rng.choice([c for c in cuts if 0 < c < len(b)] or [1])
        if rng.random() < 0.5:
            # truncated payload with the header still announcing the full length, or with a corrected length
            b = b[:t]
            if len(b) >= 4 and rng.random() < 0.5:
                struct.pack_into('<H', b, 2, max(0, len(b) - 24))
        else:
            b = b[:rng.randrange(1, len(b))]
        return 'truncated', bytes(b)
    if r < 0.85:
        # a length / count / size field set inconsistently (offsets of the standard SendRRData + Unconnected Send layout)
        fields = [(2, 2), (30, 2), (34, 2), (38, 2), (41, 1), (48, 2), (51, 1)]
        if len(b) > 60:
            fields += [(53, 1), (len(b) - 4, 1)]
        off, width = rng.choice([f for f in fields if f[0] + f[1] <= len(b)] or [(2, 2)])
        cur = int.from_bytes(b[off:off + width], 'little')
        v = rng.choice(LEN_VALUES + [cur + 1, max(0, cur - 1), cur + 2, cur * 2, 0xFFFF, len(b), len(b) - 24])
        b[off:off + width] = int(v % (1 << (8 * width))).to_bytes(width, 'little')
        return 'length-field', bytes(b)
    # bundle tables: find the 0x0A service and rewrite its count/offsets
    i = b.find(b'\x0a\x02\x20\x02\x24\x01')
    if i >= 0 and i + 10 < len(b):
        cnt_off = i + 6
        n = int.from_bytes(b[cnt_off:cnt_off + 2], 'little')
        k = rng.random()
        if k < 0.3:
            b[cnt_off:cnt_off + 2] = int(rng.choice([0, 1, n + 1, n + 7, 0xFFFF, 400])).to_bytes(2, 'little')
        else:
            for j in range(min(n, 6)):
                o = cnt_off + 2 + 2 * j
                if o + 2 <= len(b) and rng.random() < 0.6:
                    b[o:o + 2] = int(rng.choice([0, 1, 2, 2 + 2 * n, 2 + 2 * n - 1, 0xFFFF, 0x8000, len(b), rng.randrange(0, 200)])).to_bytes(2, 'little')
        return 'bundle-offsets', bytes(b)
    return 'bitflip', bytes(b[:-1] + bytes([b[-1] ^ 0xFF]))


def _greedy_path(b, off, nbytes):
    """segments from b[off:] up to nbytes, stopping before the first byte that does not start a segment -> (segments, bytes used)"""
    from vlib import refcodec as rc
    end = min(len(b), off + nbytes)
    used = 0
    while off + used < end:
        t = b[off + used]
        if t == 0x91:
            if off + used + 1 >= end:
                break
            n = b[off + used + 1]
            ln = 2 + n + (n % 2)
        elif t & 0xE0 == 0x00:
            ln = 2 if not (t & 0x10) and (t & 0x0F) != 15 else None
            if ln is None:
                break                       # extended forms: not needed for the classification
        elif (t & 0xFC) in (0x20, 0x24, 0x28, 0x30):
            ln = {0: 2, 1: 4, 2: 6}.get(t & 0x03)
            if ln is None:
                break
        else:
            break
        if off + used + ln > end:
            break
        used += ln
    return rc.dec_segments(bytes(b[off:off + used])), used


def wellformed_write_present(stream, upper_bound=False):
    """Does the byte stream contain at least one frame that the reference decoder accepts as a complete write request (Write Tag
    [Fragmented], Set Attribute Single, or a bundle containing one; bare or inside an Unconnected Send)?  Literal reading: every
    length, size and count field exactly as the layout tables say.  upper_bound=True: CPF item lengths and EPATH sizes may
    overstate what is present (the content ends earlier), never understate it.  Used only when a tag has changed."""
    from vlib import refcodec as rc
    frames, rest = rc.split_frames(stream)

    def request(cip):
        """-> True if cip is a complete write request"""
        svc = cip[0]
        if upper_bound:
            segs, used = _greedy_path(cip, 2, 2 * cip[1])
            off = 2 + used
        else:
            segs, off = rc.dec_epath(cip, 1)
        rest_ = cip[off:]
        if svc == 0x4D:
            t, e = struct.unpack_from('<HH', rest_)
            return len(rc.dec_typed(t, rest_[4:])) >= 1
        if svc == 0x53:
            t, e, o = struct.unpack_from('<HHI', rest_)
            return len(rc.dec_typed(t, rest_[8:])) >= 1
        if svc == 0x10:
            return True
        return False

    def write_request(cip):
        if not cip:
            return False
        svc = cip[0]
        if svc == 0x52 and len(cip) > 10 and cip[1] == 2 and cip[2:6] == bytes([0x20, 0x06, 0x24, 0x01]):
            ln, = struct.unpack_from('<H', cip, 8)
            inner = cip[10:10 + ln]
            if len(inner) != ln:
                return False
            tail = cip[10 + ln + (ln % 2):]
            if tail:                            # route path: words, pad, segments
                if len(tail) < 2:
                    return False
                if upper_bound:
                    if len(tail) - 2 > 2 * tail[0]:
                        return False
                    _greedy_path(tail, 2, 2 * tail[0])
                else:
                    if len(tail) != 2 + 2 * tail[0]:
                        return False
                    rc.dec_segments(tail[2:])
            return write_request(inner)
        if svc == 0x0A:
            segs, off = rc.dec_epath(cip, 1)
            body = cip[off:]
            n, = struct.unpack_from('<H', body)
            offs = list(struct.unpack_from('<%dH' % n, body, 2)) + [len(body)]
            if offs[0] != 2 + 2 * n or any(a > b for a, b in zip(offs, offs[1:])):
                return False
            found = False
            for i in range(n):
                try:
                    found = write_request(body[offs[i]:offs[i + 1]]) or found
                except Exception:
                    pass
            return found
        if svc in (0x4D, 0x53, 0x10):
            return request(cip)
        return False

    def frame_cip(f):
        if not upper_bound:
            return rc.dec_frame(f).get('cip')
        h = rc.dec_header(f)
        body = f[24:]
        if h['command'] not in (0x6F, 0x70) or len(body) < 8:
            return None
        n, = struct.unpack_from('<H', body, 6)
        off = 8
        cip = None
        for _ in range(n):
            tid, ln = struct.unpack_from('<HH', body, off)
            payload = body[off + 4:off + 4 + ln]          # an overstated item length ends with the frame
            off += 4 + len(payload)
            if tid == 0x00B2:
                cip = payload
            elif tid == 0x00B1:
                cip = payload[2:]
        return cip
    for f in frames:
        try:
            cip = frame_cip(f)
            if cip and write_request(cip):
                return True
        except Exception:
            continue
    return False


def acknowledged_write(replies):
    """does the reply stream contain a status-0 reply of a write service (also inside a bundle reply)?"""
    from vlib import refcodec as rc

    def scan(cip):
        if len(cip) < 4:
            return False
        svc, st = cip[0], cip[2]
        if svc in (0xCD, 0xD3, 0x90) and st == 0:
            return True
        if svc == 0x8A and st in (0, 0x1E):
            try:
                ext = cip[3]
                body = cip[4 + 2 * ext:]
                n, = struct.unpack_from('<H', body)
                offs = list(struct.unpack_from('<%dH' % n, body, 2)) + [len(body)]
                return any(scan(body[offs[i]:offs[i + 1]]) for i in range(n))
            except Exception:
                return True         # cannot tell: do not accuse
        return False
    for r in replies:
        try:
            fr = rc.dec_frame(r)
        except Exception:
            continue
        # the encapsulation status of a reply echoes the request header's status field; the CIP reply decides
        if fr.get('cip') and scan(fr['cip']):
            return True
    return False


def canary(sim, addr, model_value, session_holder):
    """known-answer read of H on a (long-lived or fresh) session -> None if fine, else a description"""
    from vlib import refcodec as rc
    if session_holder.get(addr) is None:
        out, rpy = sim.frame(rc.register_frame(), addr)
        if out != 'reply':
            return 'Register Session not answered (%s)' % out
        session_holder[addr] = rc.dec_header(rpy)['session_handle']
    cip = rc.enc_request({'path': {'segment': [{'symbolic': 'H'}]}, 'read_tag': {'elements': 8}})
    out, rpy = sim.frame(rc.rr_frame(cip, session_holder[addr], b'CANARY00'), addr)
    if out != 'reply':
        return 'known-answer read not answered (%s)' % out
    fr = rc.dec_frame(rpy)
    if fr['status'] != 0 or fr['sender_context'] != b'CANARY00':
        return 'known-answer read: encapsulation status %d context %r' % (fr['status'], fr['sender_context'])
    rep = rc.dec_reply(fr['cip'])
    if rep['status'] != 0 or rep['read_tag']['data'] != model_value:
        return 'known-answer read returned status 0x%02x data %r, expected %r' % (rep['status'], rep.get('read_tag', {}).get('data'), model_value)
    return None


def in_process(ctx, rng, budget_s):
    from vlib import simdrv, stepmeter, env, refcodec as rc
    sim = simdrv.Sim(CFG)
    meter = stepmeter.Meter(env.repo_path())
    sessions = {}
    long_lived = ('10.9.9.9', 50000)
    t_end = time.monotonic() + budget_s
    try:
        known = [11, 22, 33, 44, 55, 66, 77, 88]
        sim.attr['H'][0:8] = list(known)
        assert canary(sim, long_lived, known, sessions) is None
        meter.start()
        if not meter.available():
            ctx.inconclusive_because('sys.monitoring is not available in this interpreter')
            return
        # ---- calibrate on valid traffic
        worst = 0.0
        for _ in range(4):
            for f in valid_frames(rng, 77):
                (_r, steps) = meter.measure(lambda: sim.stream(rc.register_frame() + f, ('10.1.0.1', 45001)))
                worst = max(worst, steps / float(len(f) + 28))
        sim.attr['H'][0:8] = list(known)
        ctx.maxc('steps-per-byte-valid', round(worst, 1))

        def budget(n):
            return int(50 * worst * max(n, 24) + 20000)
        k = 0
        pending = consistent_truncations() if ctx.shard == 0 else []
        if ctx.shard != 0:
            pool = consistent_truncations()
            pending = [rng.choice(pool) for _ in range(40)]
        while (time.monotonic() < t_end and not ctx.expired()) or pending:
            k += 1
            addr = ('10.2.%d.%d' % (k // 250 % 250, k % 250), 40000 + k % 20000)
            frames = valid_frames(rng, 77)
            r = rng.random()
            if pending:
                hostile = pending.pop()
                label = 'consistent-truncation'
            elif r < 0.2:
                n = rng.choice([1, 2, 4, 23, 24, 25, 28, 60, 200, 1000, 5000])
                hostile = bytes(rng.randrange(256) for _ in range(n))
                if rng.random() < 0.5 and n >= 4:
                    # random bytes behind a plausible header
                    hostile = rc.enc_frame(rng.choice([0x6F, 0x70, 0x65, 0x04, 0x63, 0x01, 0x66, 0x00, 0x1234]), hostile, session=77)
                label = 'random-bytes'
            elif r < 0.24:
                hostile = b''.join(rng.sample(frames[:8], 3))      # control: unmodified valid traffic
                label = 'valid-control'
            elif r < 0.3:
                parts = []
                for _ in range(rng.choice([2, 3, 5])):
                    parts.append(mutate(rng, rng.choice(frames))[1] if rng.random() < 0.6 else rng.choice(frames))
                hostile = b''.join(parts)
                label = 'sequence'
            else:
                label, hostile = mutate(rng, rng.choice(frames))
            data = rc.register_frame() + hostile
            before = sim.state()
            wit = {'class': label, 'hostile': hostile[:2000], 'length': len(hostile)}
            try:
                (replies, how), steps = meter.measure(lambda: sim.stream(data, addr), cap=20 * budget(len(data)))
            except stepmeter.StepBudgetExceeded:
                ctx.violation('processing-not-bounded-by-input-length', '%s input of %d bytes: more than %d logical steps (20x the budget) - treated as non-terminating' % (
                    label, len(data), 20 * budget(len(data))), wit)
                return
            except BaseException as exc:
                ctx.violation('exception-escapes-connection-handler', '%s input: %r escaped the per-connection processing' % (label, exc), wit)
                return
            ctx.count('inputs')
            ctx.count('class:' + label)
            ctx.count('end:' + how.split(':')[0])
            ctx.case(hostile, nontrivial=True)
            ctx.count('monitor:step-budget')
            ctx.maxc('steps-per-byte-hostile', round(steps / float(len(data)), 1))
            if steps > budget(len(data)):
                ctx.violation('processing-not-bounded-by-input-length', '%s input of %d bytes took %d logical steps, budget %d (50 x %.0f steps/byte of valid traffic)' % (
                    label, len(data), steps, budget(len(data)), worst), dict(wit, steps=steps))
                return
            after = sim.state()
            ctx.count('monitor:state-oracle')
            if after != before:
                if not acknowledged_write(replies):
                    diff = [n for n in before if before[n] != after[n]]
                    ctx.violation('tag-changed-without-acknowledged-write', '%s input changed tag(s) %r but no reply acknowledges a write (connection ended: %s, %d replies)' % (
                        label, diff, how, len(replies)), wit)
                    return
                ctx.count('state-changed-with-acknowledged-write')
                # informational only (no verdict): how often the acknowledged write was not a complete write request under a literal
                # reading of every length field.  The library treats inner lengths as upper bounds, ignores bytes behind the route path
                # and stores as many whole elements as the data holds; judging that would be reading more into "well-formed" than
                # the property says (DESIGN 8.2).
                try:
                    if not wellformed_write_present(hostile):
                        ctx.count('info:acknowledged-write-not-literally-well-formed')
                except Exception:
                    pass
                known = list(after['H'])
            # values must still be representable (no corruption of the stored list shape)
            if len(after['H']) != 8 or len(after['G']) != 4 or len(after['B']) != 3:
                ctx.violation('tag-shape-corrupted', 'tag lengths after %s input: %r' % (label, {k_: len(v) for k_, v in after.items() if isinstance(v, list)}), wit)
                return
            for who, a in (('long-lived', long_lived), ('fresh', ('10.3.%d.%d' % (k // 250 % 250, k % 250), 30000 + k % 20000))):
                if who == 'fresh':
                    sessions.pop(a, None)
                bad = canary(sim, a, known, sessions)
                ctx.count('monitor:canary-' + who)
                if bad:
                    ctx.violation('other-session-disturbed-by-hostile-input', 'after a %s input the %s session: %s' % (label, who, bad), wit)
                    return
            if ctx.want_sample() and k % 40 == 3:
                ctx.sample({'class': label, 'hostile_bytes': hostile[:60], 'length': len(hostile), 'steps': steps, 'budget': budget(len(data)), 'connection_ended': how, 'replies': len(replies)})
    finally:
        meter.stop()
        sim.close()


def burst(ctx, rng, sim, long_lived, known, size):
    """`size` registered connections receive hostile input at the same moment and all end together: the connections fail
    individually, the listener and the other sessions carry on.  -> the new known value of H, or None after a violation"""
    from vlib import simdrv, refcodec as rc
    frames = valid_frames(rng, 77)
    mode = rng.choice(['random-bytes', 'mutated', 'same-mutation'])
    same = mutate(rng, rng.choice(frames))
    socks, hostiles = [], []
    wit = {'class': 'burst:' + mode, 'burst': size}
    before = sim.state()
    try:
        for _ in range(size):
            s = socket.create_connection(sim.address, timeout=5)
            s.sendall(rc.register_frame())
            hdr = b''
            while len(hdr) < 28:
                c = s.recv(28 - len(hdr))
                if not c:
                    break
                hdr += c
            if len(hdr) < 28:
                ctx.violation('listener-stopped-accepting', 'live: connection %d of a burst of %d idle connections was not registered' % (len(socks), size), wit)
                return None
            socks.append(s)
            if mode == 'random-bytes':
                hostiles.append(bytes(rng.randrange(256) for _ in range(rng.choice([24, 30, 300]))))
            elif mode == 'mutated':
                hostiles.append(mutate(rng, rng.choice(frames))[1])
            else:
                hostiles.append(same[1])
        wit['hostile'] = hostiles[0][:2000]
        wit['hostiles'] = [h[:400] for h in hostiles]
        for s, h in zip(socks, hostiles):           # all at once: nothing is read in between
            try:
                s.sendall(h)
                s.shutdown(socket.SHUT_WR)
            except OSError:
                pass
        gots = []
        for s in socks:
            got = b''
            s.settimeout(10)
            try:
                while True:
                    c = s.recv(65536)
                    if not c:
                        break
                    got += c
            except socket.timeout:
                ctx.inconclusive_because('live server did not close a hostile connection of a burst within 10 s (wall-clock guard)')
                return None
            except OSError:
                pass
            gots.append(got)
    finally:
        for s in socks:
            s.close()
    ctx.count('live:burst')
    ctx.count('live:burst-connections', size)
    ctx.case(('burst', mode, size, hostiles[0]))
    after = sim.state()
    if after != before:
        if not any(acknowledged_write(rc.split_frames(g)[0]) for g in gots):
            ctx.violation('tag-changed-without-acknowledged-write', 'live: a burst of %d %s inputs changed tags without an acknowledged write' % (size, mode), wit)
            return None
        known = list(after['H'])
    time.sleep(0.25)            # let the accept loop make a tidy pass over the ended connections
    rq = rc.enc_request({'path': {'segment': [{'symbolic': 'H'}]}, 'read_tag': {'elements': 8}})
    fr = long_lived.rr(rq)
    if fr is None or fr['status'] != 0 or rc.dec_reply(fr['cip'])['read_tag']['data'] != known:
        ctx.violation('other-session-disturbed-by-hostile-input', 'live: long-lived session after a burst of %d %s inputs: %r' % (size, mode, fr and fr['status']), wit)
        return None
    if not sim.thread.is_alive():
        ctx.violation('server-went-down', 'live: the server thread died after %d connections failed together (%s)' % (size, mode), wit)
        return None
    try:
        fresh = simdrv.RawClient(sim.address)
        fresh.register()
        fr = fresh.rr(rq)
        fresh.close()
    except Exception as exc:
        ctx.violation('listener-stopped-accepting', 'live: new connection after a burst of %d %s inputs failed: %r' % (size, mode, exc), wit)
        return None
    if fr is None or fr['status'] != 0 or rc.dec_reply(fr['cip'])['read_tag']['data'] != known:
        ctx.violation('other-session-disturbed-by-hostile-input', 'live: fresh session after a burst of %d %s inputs got a wrong answer' % (size, mode), wit)
        return None
    for _ in range(1000):       # 10 s: a watchdog for "never", not a performance requirement
        if sim.connections() <= 1:
            break
        time.sleep(0.01)
    if sim.connections() > 1:
        ctx.violation('connection-table-leak', 'live: %d connection entries remain after a burst (baseline 1)' % sim.connections(), wit)
        return None
    return known


def live(ctx, rng, n):
    from vlib import simdrv, reqgen, refcodec as rc
    sim = simdrv.TcpSim(reqgen.argv_of(CFG))
    long_lived = simdrv.RawClient(sim.address)
    long_lived.register()
    try:
        known = [5, 6, 7, 8, 9, 10, 11, 12]
        sim.attributes()['H'][0:8] = list(known)
        base_threads = None
        for size in ([3, 12, 40] if ctx.tier == 'quick' else [2, 5, 11, 12, 25, 40, 80, 150]):
            known = burst(ctx, rng, sim, long_lived, known, size)
            if known is None:
                return
        for k in range(n):
            if ctx.expired():
                break
            frames = valid_frames(rng, 77)
            if rng.random() < 0.25:
                label, hostile = 'random-bytes', bytes(rng.randrange(256) for _ in range(rng.choice([1, 24, 30, 300, 3000])))
            else:
                label, hostile = mutate(rng, rng.choice(frames))
            wit = {'class': label, 'hostile': hostile[:2000]}
            before = sim.state()
            s = socket.create_connection(sim.address, timeout=5)
            got = b''
            ending = 'rst' if k % 3 == 2 else 'fin'
            local = s.getsockname()
            if ending == 'rst':
                # the peer vanishes abruptly: whatever it sent, the connection is then reset (close with SO_LINGER 0) instead of
                # closed in an orderly way; the tag oracle is skipped (replies cannot be collected reliably), everything else applies,
                # and the same source address must be served when it connects again
                try:
                    s.sendall(rc.register_frame())
                    s.sendall(hostile)
                    s.settimeout(0.05)
                    try:
                        s.recv(65536)
                    except (socket.timeout, OSError):
                        pass
                    s.setsockopt(socket.SOL_SOCKET, socket.SO_LINGER, struct.pack('ii', 1, 0))
                finally:
                    s.close()
                ctx.count('live:connection-reset')
                for _ in range(1000):
                    if sim.connections() <= 1:
                        break
                    time.sleep(0.01)
                again = socket.socket()
                try:
                    again.setsockopt(socket.SOL_SOCKET, socket.SO_REUSEADDR, 1)
                    again.settimeout(5)
                    try:
                        again.bind(local)
                        again.connect(sim.address)
                    except OSError:
                        again = None            # the kernel does not let us have the port back yet: nothing to observe
                    if again is not None:
                        again.sendall(rc.register_frame())
                        hdr = b''
                        try:
                            while len(hdr) < 28:
                                c = again.recv(28 - len(hdr))
                                if not c:
                                    break
                                hdr += c
                        except OSError:
                            pass
                        ctx.count('live:same-source-address-again')
                        if len(hdr) < 28 or rc.dec_header(hdr)['status'] != 0 or rc.dec_header(hdr)['session_handle'] == 0:
                            ctx.violation('session-refused-after-peer-reset', 'live: after a connection from %r was reset (%s input), a new connection from the same source address '
                                          'got %d bytes instead of a Register Session reply' % (local, label, len(hdr)), wit)
                            return
                finally:
                    if again is not None:
                        again.close()
                known = list(sim.state()['H'])
                s = socket.create_connection(sim.address, timeout=5)
                hostile = b''
            try:
                s.sendall(rc.register_frame())
                s.sendall(hostile)
                s.shutdown(socket.SHUT_WR)
                s.settimeout(5)
                try:
                    while True:
                        c = s.recv(65536)
                        if not c:
                            break
                        got += c
                except socket.timeout:
                    ctx.inconclusive_because('live server did not close a hostile connection within 5 s (wall-clock guard)')
                    return
                except OSError:
                    pass
            finally:
                s.close()
            ctx.count('live:inputs')
            ctx.case(('live', hostile))
            replies, rest = rc.split_frames(got)
            after = sim.state()
            if after != before and ending == 'rst':
                known = list(after['H'])
            elif after != before:
                if not acknowledged_write(replies):
                    ctx.violation('tag-changed-without-acknowledged-write', 'live: %s input changed tags without an acknowledged write' % label, wit)
                    return
                known = list(after['H'])
            # canaries
            rq = rc.enc_request({'path': {'segment': [{'symbolic': 'H'}]}, 'read_tag': {'elements': 8}})
            fr = long_lived.rr(rq)
            if fr is None or fr['status'] != 0 or rc.dec_reply(fr['cip'])['read_tag']['data'] != known:
                ctx.violation('other-session-disturbed-by-hostile-input', 'live: long-lived session after a %s input: %r' % (label, fr and fr['status']), wit)
                return
            try:
                fresh = simdrv.RawClient(sim.address)
                fresh.register()
                fr = fresh.rr(rq)
                fresh.close()
            except Exception as exc:
                ctx.violation('listener-stopped-accepting', 'live: new connection after a %s input failed: %r' % (label, exc), wit)
                return
            ctx.count('live:listener-accepts')
            if fr is None or fr['status'] != 0 or rc.dec_reply(fr['cip'])['read_tag']['data'] != known:
                ctx.violation('other-session-disturbed-by-hostile-input', 'live: fresh session after a %s input got a wrong answer' % label, wit)
                return
            for _ in range(1000):       # 10 s: a watchdog for "never", not a performance requirement
                if sim.connections() <= 1:
                    break
                time.sleep(0.01)
            if sim.connections() > 1:
                ctx.violation('connection-table-leak', 'live: %d connection entries remain (baseline 1)' % sim.connections(), wit)
                return
            time.sleep(0.005)
            nthreads = threading.active_count()
            if base_threads is None:
                base_threads = nthreads
            elif nthreads > base_threads + 3:
                ctx.violation('server-threads-leak', 'live: %d threads, baseline %d' % (nthreads, base_threads), wit)
                return
            ctx.count('live:thread-count-stable')
            if not sim.thread.is_alive():
                ctx.violation('server-went-down', 'live: the server thread died after a %s input' % label, wit)
                return
    finally:
        long_lived.close()
        sim.stop()


def run(ctx):
    rng = ctx.rng
    soft = SOFT[ctx.tier]
    in_process(ctx, rng, soft * 0.6)
    live(ctx, rng, 60 if ctx.tier == 'quick' else 4000)


def replay(ctx, witness):
    from vlib import simdrv, refcodec as rc
    sim = simdrv.Sim(CFG)
    try:
        before = sim.state()
        replies, how = sim.stream(rc.register_frame() + witness['hostile'], ('10.2.0.1', 40001))
        if sim.state() != before and not acknowledged_write(replies):
            ctx.violation('tag-changed-without-acknowledged-write', 'replayed input changed a tag without acknowledged write', witness)
        ctx.notes.append('replayed: connection ended %s, %d replies' % (how, len(replies)))
    finally:
        sim.close()
    ctx.case(('replay',))

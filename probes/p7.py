import sys, time, threading, logging
from cpppo.server.enip.main import main as enip_main
from cpppo.dotdict import apidict
import pylogix
logging.disable(logging.CRITICAL)
ctl = apidict( 2.0, {'done': False} )
kw = dict( argv=['-a','localhost:0','--no-config','A=INT[1000]','B=DINT[5]','R=REAL[4]','S=SINT[3]','Q=BOOL[4]','L=LINT[2]','D=LREAL[2]','U=UINT[3]'], server={'control': ctl} )
t = threading.Thread( target=enip_main, kwargs=kw, daemon=True ); t.start()
while 'address' not in ctl: time.sleep(.01)
addr = ctl['address']
with pylogix.PLC() as comm:
    comm.SocketTimeout = 3
    comm.IPAddress = addr[0]
    comm.Port = addr[1]
    print( "connect", comm.conn.connect() )
    print( comm.Write( 'A[3]', [1,2,3] ))
    print( comm.Read( 'A[2]', 5 ))
    r = comm.Read( 'A[0]', 600 ); print( r.Status, len(r.Value) if r.Value else r.Value )
    print( comm.Write( 'B[1]', 123456 ))
    print( comm.Read( 'B[0]', 5 ))
    print( comm.Write( 'R[1]', 1.5 )); print( comm.Read( 'R[0]', 4 ))
    print( comm.Read( ['A[0]','B[1]','R[1]'] ))
    print( comm.Read( 'A[999]', 5 ))
    print( comm.Read( 'Nope' ))
    print( comm.Write( 'S[0]', [-5, 7] ), comm.Read('S[0]',3))
    print( comm.Write( 'Q[1]', True ), comm.Read('Q[0]',4))
    print( comm.Write( 'L[1]', 2**40 ), comm.Read('L[0]',2))
    print( comm.Write( 'D[1]', 2.5 ), comm.Read('D[0]',2))
    print( comm.Read( 'A' ))
ctl['done']=True

"""Generators of simulator configurations and of CIP requests against them (refcodec field-dict shape)."""
from __future__ import annotations
from . import gen, refcodec as rc

ALL_TYPES = ['BOOL', 'SINT', 'INT', 'DINT', 'LINT', 'USINT', 'UINT', 'UDINT', 'ULINT', 'REAL', 'LREAL', 'SSTRING', 'STRING']
FIXED_TYPES = ALL_TYPES[:11]
NAMES = ['A', 'B7', 'Tag_1', 'motor', 'Speed_SP', 'x', 'LongerTagName_0123456789', 'Odd', 'Line.Rate', 'T']


def gen_config(rng, ntags=None, sizes=None, with_addresses=True, types=None, force_sharing=False, router_instance=False):
    """-> list of (name, type, size, address|None)"""
    types = types or ALL_TYPES
    ntags = ntags or rng.choice([1, 2, 3, 4, 6])
    sizes = sizes or [1, 1, 2, 3, 5, 8, 16, 40]
    names = rng.sample(NAMES, ntags)
    cfg = []
    used = {}
    for name in names:
        t = rng.choice(types)
        n = rng.choice(sizes)
        address = None
        if with_addresses and rng.random() < 0.35:
            cls = rng.choice([0x93, 0x93, 0x400])
            ins = rng.choice([1, 1, 2, 3])
            att = rng.choice([1, 2, 3, 10, 300])
            key = (cls, ins, att)
            if key in used:
                t, n = used[key]          # two tags aliasing one attribute must agree on type and size
            used[key] = (t, n)
            address = '0x%x/%d/%d' % key
        cfg.append((name, t, n, address))
    if force_sharing and with_addresses and len(cfg) >= 3:
        # deterministic coverage: two tags aliasing one attribute, a third on the same instance
        n0, t0, s0, _ = cfg[0]
        cfg[0] = (n0, t0, s0, '0x93/7/1')
        cfg[1] = (cfg[1][0], t0, s0, '0x93/7/1')
        cfg[2] = (cfg[2][0], cfg[2][1], cfg[2][2], '0x93/7/2')
    if router_instance:
        # a tag bound explicitly into the instance where the simulator also allocates its automatic tags (@2/1/N, N a little above
        # what is allocated so far), defined FIRST and followed by enough automatically allocated tags to count past N
        n0, t0, s0, _ = cfg[0]
        cfg[0] = (n0, t0, s0, '2/1/%d' % rng.choice([2, 3, 4]))
        extra = [nm for nm in NAMES if nm not in [c[0] for c in cfg]]
        while sum(1 for c in cfg if not c[3]) < 5 and extra:
            cfg.append((extra.pop(0), rng.choice(types), rng.choice(sizes), None))
        cfg = [cfg[0]] + [c for c in cfg[1:] if not (c[3] or '').startswith('2/1/')]
    return cfg


def argv_of(cfg):
    """the same configuration as command-line tag arguments of enip.main.main"""
    out = []
    for name, t, n, address in cfg:
        out.append('%s%s=%s[%d]' % (name, ('@' + address) if address else '', t, n))
    return out


def vary_case(rng, name):
    """case variation of the ASCII letters only: for the other ISO-8859-1 letters Python's upper()/lower() are not inverse
    (upper('ß') == 'SS'), and a name varied that way could legitimately be another tag"""
    up = lambda c: c.upper() if c.isascii() else c
    lo = lambda c: c.lower() if c.isascii() else c
    r = rng.random()
    if r < 0.5:
        return name
    if r < 0.7:
        return ''.join(map(up, name))
    if r < 0.9:
        return ''.join(map(lo, name))
    return ''.join(up(c) if rng.random() < 0.5 else lo(c) for c in name)


# tag names that a caseless comparison broader than "lower case within ISO-8859-1" would wrongly identify with each other
LATIN1_PAIRS = [('Maß', 'MASS'), ('Fluß.Soll', 'FLUSS.SOLL'), ('Straße', 'STRASSE')]


def add_latin1_pair(rng, cfg, types=None):
    a, b = rng.choice(LATIN1_PAIRS)
    ta, tb = rng.sample(['DINT', 'INT', 'REAL', 'SINT'], 2)
    return list(cfg) + [(a, ta, rng.choice([1, 4, 6]), None), (b, tb, rng.choice([1, 3, 5]), None)]


def path_for(rng, cfg_entry, elem, numeric=None):
    name, t, n, address = cfg_entry
    if numeric is None:
        numeric = bool(address) and rng.random() < 0.5
    if numeric and address:
        c, i, a = (int(x, 0) for x in address.split('/'))
        segs = [{'class': c}, {'instance': i}, {'attribute': a}]
    else:
        segs = [{'symbolic': s} for s in vary_case(rng, name).split('.')]
    if elem is not None:
        segs.append({'element': elem})
    return segs


def index_count(rng, n, valid=True):
    """an (index, count) pair inside [valid] or straddling the bounds of a tag of n elements"""
    if valid:
        i = rng.choice([0, 0, n - 1, rng.randrange(n)])
        cnt = rng.choice([1, n - i, rng.randrange(1, n - i + 1)])
        return i, cnt
    r = rng.random()
    if r < 0.2:
        return rng.choice([n, n + 1, n + 100, 65535]), 1                    # index beyond the end
    if r < 0.4:
        return rng.randrange(n), 0                                           # zero count
    if r < 0.6:
        i = rng.randrange(n)
        return i, n - i + rng.choice([1, 2, 100])                            # runs past the end
    if r < 0.8:
        return 0, n + rng.choice([1, 2, 1000])                               # more than the tag holds
    return n - 1, 2


def values_for(rng, tname, k):
    return gen.typed_values(rng, tname, k)


def gen_read(rng, cfg, valid=True, frag=None):
    e = rng.choice(cfg)
    name, t, n, address = e
    i, cnt = index_count(rng, n, valid)
    elem = i if (i or rng.random() < 0.5) else None
    segs = path_for(rng, e, elem)
    if frag is None:
        frag = rng.random() < 0.4
    if frag:
        off = 0
        if t in rc.TYPES and valid and cnt > 1 and rng.random() < 0.4:
            off = rng.randrange(0, cnt) * rc.size_of(t)
        return {'path': {'segment': segs}, 'read_frag': {'elements': cnt, 'offset': off}}
    return {'path': {'segment': segs}, 'read_tag': {'elements': cnt}}


def source_type(rng, dst, compatible=True):
    from .arraymodel import can_hold
    cands = [s for s in ALL_TYPES if can_hold(dst, s) == compatible]
    if not cands:
        return dst
    if compatible and rng.random() < 0.6:
        return dst
    return rng.choice(cands)


def gen_write(rng, cfg, valid=True, frag=None, bad='range'):
    e = rng.choice(cfg)
    name, t, n, address = e
    if valid or bad != 'range':
        i, cnt = index_count(rng, n, True)
    else:
        i, cnt = index_count(rng, n, False)
        if cnt == 0:
            cnt = n + 1
    cnt = min(cnt, 60)
    src = source_type(rng, t, compatible=(valid or bad != 'type'))
    vals = values_for(rng, src, cnt)
    if bad == 'type' and not valid and src in gen.INT_RANGES and rng.random() < 0.5:
        vals = [rng.choice([0, 1, 2]) for _ in vals]        # small values: only the type can be the reason for a refusal
    if bad != 'type' or valid:
        # keep values representable in the destination (extremes of the source type are C05's business)
        from .arraymodel import represent
        ok = []
        for v in vals:
            try:
                represent(t, v)
                ok.append(v)
            except Exception:
                ok.append(type(v)(1))
        vals = ok
    elem = i if (i or rng.random() < 0.5) else None
    segs = path_for(rng, e, elem)
    code = rc.NAME2CODE[src]
    if frag is None:
        frag = rng.random() < 0.3
    if frag and t in rc.TYPES:
        return {'path': {'segment': segs}, 'write_frag': {'type': code, 'elements': len(vals), 'offset': 0, 'data': vals}}
    return {'path': {'segment': segs}, 'write_tag': {'type': code, 'elements': len(vals), 'data': vals}}


def gen_attr(rng, cfg, write=False):
    """Get/Set Attribute Single by numeric path (only for tags with explicit addresses)"""
    addressed = [e for e in cfg if e[3] and e[1] in rc.TYPES]
    if not addressed:
        return None
    e = rng.choice(addressed)
    name, t, n, address = e
    segs = path_for(rng, e, None, numeric=True)
    if write:
        vals = values_for(rng, t, n)
        raw = b''.join(rc.enc_scalar(t, v) for v in vals)
        if rng.random() < 0.15:
            raw = raw + b'\x00' if (rng.random() < 0.5 or len(raw) < 2) else raw[:-1]
        return {'path': {'segment': segs}, 'set_attribute_single': {'data': list(raw)}}
    return {'path': {'segment': segs}, 'get_attribute_single': True}


def gen_unknown(rng, cfg):
    r = rng.random()
    if r < 0.5:
        segs = [{'symbolic': rng.choice(['Nope', 'zz_unknown', 'A_', 'a1'])}]
    elif r < 0.75:
        segs = [{'class': rng.choice([0x93, 0x77]), 'instance': 9}] if False else [{'class': rng.choice([0x93, 0x77])}, {'instance': 9}, {'attribute': 1}]
    else:
        segs = [{'class': 2}, {'instance': 1}, {'attribute': 250}]
    if rng.random() < 0.5:
        return {'path': {'segment': segs}, 'read_tag': {'elements': 1}}
    return {'path': {'segment': segs}, 'write_tag': {'type': 0xC3, 'elements': 1, 'data': [1]}}


def gen_overlong(rng, cfg, budget=488):
    """index+elements runs past the end of the tag, elements <= len, index >= 1, but the part actually transferred
    (one reply's worth for a read, the values carried for a fragmented write) lies inside the tag"""
    cands = [e for e in cfg if e[1] in rc.TYPES and e[2] >= 3]
    if not cands:
        return None
    big = [e for e in cands if e[2] * rc.size_of(e[1]) > budget + 2 * rc.size_of(e[1])]
    e = rng.choice(big) if big and rng.random() < 0.7 else rng.choice(cands)
    name, t, n, address = e
    size = rc.size_of(t)
    per = max(1, -(-budget // size))
    if rng.random() < 0.5 and n > per + 1:
        i = rng.randrange(1, n - per)
        cnt = n - i + rng.choice([1, 2, i])
        cnt = min(cnt, n)
        segs = path_for(rng, e, i)
        if rng.random() < 0.5:
            return 'read-range', {'path': {'segment': segs}, 'read_tag': {'elements': cnt}}
        return 'read-range', {'path': {'segment': segs}, 'read_frag': {'elements': cnt, 'offset': 0}}
    i = rng.randrange(1, n - 1)
    k = rng.randrange(1, n - i)             # values carried: fit inside the tag
    total = n - i + rng.choice([1, 2])
    if total > n:
        return None
    vals = values_for(rng, t, k)
    segs = path_for(rng, e, i)
    return 'write-range', {'path': {'segment': segs}, 'write_frag': {'type': rc.NAME2CODE[t], 'elements': total, 'offset': 0, 'data': vals}}


def gen_inconsistent_count(rng, cfg):
    """a write that carries MORE values than the element count it declares (all of them would still fit inside the tag)"""
    cands = [e for e in cfg if e[1] in rc.TYPES and e[2] >= 3]
    if not cands:
        return None
    e = rng.choice(cands)
    name, t, n, address = e
    i = rng.randrange(0, n - 2)
    k = rng.randrange(2, min(n - i, 8) + 1)         # values carried
    declared = rng.randrange(1, k)                  # elements field: fewer
    vals = values_for(rng, t, k)
    segs = path_for(rng, e, i if i or rng.random() < 0.5 else None)
    if rng.random() < 0.6:
        return 'write-range', {'path': {'segment': segs}, 'write_tag': {'type': rc.NAME2CODE[t], 'elements': declared, 'data': vals}}
    return 'write-range', {'path': {'segment': segs}, 'write_frag': {'type': rc.NAME2CODE[t], 'elements': declared, 'offset': 0, 'data': vals}}


def gen_request(rng, cfg, p_invalid=0.25, allow_unknown=True):
    """-> (label, request dict)"""
    r = rng.random()
    if r < p_invalid:
        k = rng.random()
        if k < 0.2:
            o = gen_overlong(rng, cfg)
            if o is not None:
                return o
        if k < 0.3:
            o = gen_inconsistent_count(rng, cfg)
            if o is not None:
                return o
        if k < 0.35:
            return 'read-range', gen_read(rng, cfg, valid=False)
        if k < 0.6:
            return 'write-range', gen_write(rng, cfg, valid=False, bad='range')
        if k < 0.85 or not allow_unknown:
            return 'write-type', gen_write(rng, cfg, valid=False, bad='type')
        return 'unknown', gen_unknown(rng, cfg)
    k = rng.random()
    if k < 0.45:
        return 'read', gen_read(rng, cfg)
    if k < 0.85:
        return 'write', gen_write(rng, cfg)
    a = gen_attr(rng, cfg, write=rng.random() < 0.5)
    if a is None:
        return 'read', gen_read(rng, cfg)
    return 'attr', a

"""Sequential reference model of the simulator: a set of fixed-length typed arrays.

Written from the property statements (C03/C04/C05/C07), not from logix.py:
  * a tag is (element type, n elements); a read of [i, i+n) returns the most recently written values
    converted to the tag's type, or zero/empty;
  * a request beyond the end of the tag, for zero elements or more elements than the tag holds fails with
    0xFF / [0x2105]; a write whose data type (or values) the tag cannot hold fails with 0xFF / [0x2107];
  * an unknown tag / attribute fails with 0x05;
  * a fragmented read with byte offset o (a multiple of the element size) continues the range [i, i+n) at
    element i + o/size and returns at most ceil(budget/size) elements, status 0x06 while more remain.
"""
from __future__ import annotations
import math, struct

from . import refcodec as rc

OK, MORE = 0x00, 0x06
ERR = 0xFF
X_RANGE, X_TYPE = 0x2105, 0x2107

SIGNED = {'SINT': 1, 'INT': 2, 'DINT': 4, 'LINT': 8}
UNSIGNED = {'USINT': 1, 'UINT': 2, 'UDINT': 4, 'ULINT': 8}


def can_hold(dst, src):
    """Can a tag of element type dst hold data of wire type src (type level)?"""
    if dst == src:
        return True
    if src == 'BOOL':
        return dst in SIGNED or dst in UNSIGNED or dst in ('REAL', 'LREAL')
    if dst in SIGNED:
        return (src in SIGNED and SIGNED[src] <= SIGNED[dst]) or (src in UNSIGNED and UNSIGNED[src] <= SIGNED[dst])
    if dst in UNSIGNED:
        return src in UNSIGNED and UNSIGNED[src] <= UNSIGNED[dst]
    if dst == 'REAL':
        return (src in SIGNED and SIGNED[src] <= 4) or (src in UNSIGNED and UNSIGNED[src] <= 4)
    if dst == 'LREAL':
        return (src in SIGNED and SIGNED[src] <= 4) or (src in UNSIGNED and UNSIGNED[src] <= 4) or src == 'REAL'
    return False


def represent(tname, v):
    """The value v as represented in a tag of type tname (what a read must return); raises if it cannot be."""
    if tname in ('SSTRING', 'STRING'):
        return v
    if tname == 'BOOL':
        return bool(v)
    fmt = rc.TYPES[tname][1]
    return struct.unpack(fmt, struct.pack(fmt, v))[0]


def same_value(tname, a, b):
    if tname in ('REAL', 'LREAL'):
        try:
            if math.isnan(a) and math.isnan(b):
                return True
            return struct.pack('<d', float(a)) == struct.pack('<d', float(b))
        except Exception:
            return False
    if tname == 'BOOL':
        return bool(a) == bool(b)
    return a == b and type(a) is not bool or (a == b and tname == 'BOOL')


class Tag:
    def __init__(self, tname, n):
        self.tname, self.n = tname, n
        zero = {'BOOL': False, 'REAL': 0.0, 'LREAL': 0.0, 'SSTRING': '', 'STRING': ''}.get(tname, 0)
        self.values = [zero] * n

    @property
    def size(self):
        return rc.size_of(self.tname) if self.tname in rc.TYPES else None

    @property
    def code(self):
        return rc.NAME2CODE[self.tname]


class Model:
    def __init__(self, tags, budget=488):
        """tags: list of (name, type_name, size, address|None) -- same description handed to the simulator"""
        self.budget = budget
        self.tags = {}
        self.by_addr = {}
        for name, tname, n, address in tags:
            t = None
            if address:
                key = self._addr_key(address)
                t = self.by_addr.get(key)
            if t is None:
                t = Tag(tname, n)
                if address:
                    self.by_addr[key] = t
            self.tags[name.lower()] = t

    @staticmethod
    def _addr_key(address):
        parts = address.split('[')[0].split('/')
        return tuple(int(p, 0) for p in parts[:3])

    def snapshot(self):
        return {k: list(t.values) for k, t in self.tags.items()}

    def find(self, segments):
        """-> (Tag|None, element index)"""
        elem = 0
        names = [s['symbolic'] for s in segments if 'symbolic' in s]
        for s in segments:
            if 'element' in s:
                elem = s['element']
                break
        if names:
            return self.tags.get('.'.join(names).lower()), elem
        key = (next((s['class'] for s in segments if 'class' in s), None),
               next((s['instance'] for s in segments if 'instance' in s), None),
               next((s['attribute'] for s in segments if 'attribute' in s), 1))
        return self.by_addr.get(key), elem

    # -- services; each returns a reply field dict in refcodec's shape and updates the state
    def read(self, segments, count, offset=None, budget=None):
        svc = 0xCC if offset is None else 0xD2
        key = 'read_tag' if offset is None else 'read_frag'
        tag, i = self.find(segments)
        if tag is None:
            return {'service': svc, 'status': 0x05}
        fail = {'service': svc, 'status': ERR, 'status_ext': {'size': 1, 'data': [X_RANGE]}}
        n = count
        if n < 1 or i < 0 or i >= tag.n or i + n > tag.n:
            return fail
        size = tag.size
        start = i
        if offset:
            if size is None or offset % size:
                return fail
            start = i + offset // size
            if start >= i + n:
                return fail
        budget = budget or self.budget
        if size is None:
            per = max(1, (budget + 80 - 1) // 80)      # variable-length elements: the library estimates 80 bytes each
        else:
            per = max(1, -(-budget // size))
        end = min(i + n, start + per)
        vals = [represent(tag.tname, v) for v in tag.values[start:end]]
        return {'service': svc, 'status': OK if end == i + n else MORE, key: {'type': tag.code, 'data': vals}}

    def write(self, segments, tcode, data, count=None, offset=None):
        svc = 0xCD if offset is None else 0xD3
        tag, i = self.find(segments)
        if tag is None:
            return {'service': svc, 'status': 0x05}
        src = rc.CODE2NAME.get(tcode)
        tfail = {'service': svc, 'status': ERR, 'status_ext': {'size': 1, 'data': [X_TYPE]}}
        rfail = {'service': svc, 'status': ERR, 'status_ext': {'size': 1, 'data': [X_RANGE]}}
        if src is None or not can_hold(tag.tname, src):
            return tfail
        try:
            conv = [represent(tag.tname, v) for v in data]
        except (struct.error, OverflowError, ValueError):
            return tfail
        n = len(data) if count is None else count
        start = i
        if offset:
            size = tag.size
            if size is None or offset % size:
                return rfail
            start = i + offset // size
        if n < 1 or not data or i >= tag.n or i + n > tag.n or start + len(data) > i + n or start >= tag.n:
            return rfail
        tag.values[start:start + len(data)] = list(data)
        return {'service': svc, 'status': OK}

    def get_attribute_single(self, segments):
        tag, _ = self.find(segments)
        if tag is None:
            return {'service': 0x8E, 'status': 'fail'}
        raw = b''.join(rc.enc_scalar(tag.tname, represent(tag.tname, v)) for v in tag.values)
        return {'service': 0x8E, 'status': OK, 'get_attribute_single': {'data': list(raw)}}

    def set_attribute_single(self, segments, raw):
        tag, _ = self.find(segments)
        if tag is None or tag.size is None or len(raw) != tag.size * tag.n:
            return {'service': 0x90, 'status': 'fail'}
        tag.values[:] = rc.dec_typed(tag.code, bytes(raw))
        return {'service': 0x90, 'status': OK}

    def apply(self, req, budget=None):
        """req: request field dict (refcodec shape) -> expected reply field dict"""
        segs = req['path']['segment']
        if 'read_tag' in req:
            return self.read(segs, req['read_tag']['elements'], budget=budget)
        if 'read_frag' in req:
            return self.read(segs, req['read_frag']['elements'], offset=req['read_frag']['offset'], budget=budget)
        if 'write_tag' in req:
            w = req['write_tag']
            return self.write(segs, w['type'], w['data'], count=w.get('elements', len(w['data'])))
        if 'write_frag' in req:
            w = req['write_frag']
            return self.write(segs, w['type'], w['data'], count=w['elements'], offset=w.get('offset', 0))
        if 'get_attribute_single' in req:
            return self.get_attribute_single(segs)
        if 'set_attribute_single' in req:
            return self.set_attribute_single(segs, req['set_attribute_single']['data'])
        if 'multiple' in req:
            return {'service': 0x8A, 'status': OK, 'multiple': {'request': [self.apply(r, budget) for r in req['multiple']['request']]}}
        raise ValueError('unmodelled request %r' % sorted(req))

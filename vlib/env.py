"""Locate the tree under test and make `import cpppo` resolve to it.

Default tree: /repo (its current working tree -- pure Python, so importing it *is* rebuilding it).
VERIF_REPO=<dir> points the checks at a scratch copy (used by ./selftest for mutants).

The venv installs cpppo as an "editable" package whose finder is LAST on sys.meta_path; a directory
containing the symlink  cpppo -> <tree>  placed first on sys.path therefore wins for both cases.
"""
from __future__ import annotations
import atexit, os, shutil, sys, tempfile, logging

HERE = os.path.dirname(os.path.dirname(os.path.abspath(__file__)))     # /verif
DEPS = os.path.join(HERE, '.deps')
WHEELS = '/opt/veriftools/wheels'

_done = None


def repo_path() -> str:
    return os.path.realpath(os.environ.get('VERIF_REPO', '/repo'))


def setup(quiet: bool = True) -> str:
    """Idempotent.  Returns the path of the tree under test."""
    global _done
    if _done:
        return _done
    tree = repo_path()
    link_dir = tempfile.mkdtemp(prefix='cpppo-verif-', dir=os.environ.get('VERIF_TMP') or None)
    os.symlink(tree, os.path.join(link_dir, 'cpppo'))
    atexit.register(shutil.rmtree, link_dir, True)
    sys.path.insert(0, link_dir)
    if os.path.isdir(DEPS) and DEPS not in sys.path:
        sys.path.append(DEPS)
    if quiet:
        logging.disable(logging.CRITICAL)
    import cpppo                                    # noqa: F401
    got = os.path.realpath(os.path.dirname(cpppo.__file__))
    if got != tree:
        raise RuntimeError("cpppo imported from %s, expected %s" % (got, tree))
    _done = tree
    return tree


def ensure_deps() -> bool:
    """Install icontract into /verif/.deps from the offline wheelhouse if missing.  Returns True if
    icontract can be imported afterwards.  Never touches the network."""
    try:
        if os.path.isdir(DEPS) and DEPS not in sys.path:
            sys.path.append(DEPS)
        import icontract                            # noqa: F401
        return True
    except Exception:
        pass
    import subprocess
    try:
        subprocess.run([sys.executable, '-m', 'pip', 'install', '--quiet', '--no-index',
                        '--find-links', WHEELS, '--target', DEPS, 'icontract'],
                       check=True, timeout=300, stdout=subprocess.DEVNULL, stderr=subprocess.DEVNULL)
        if DEPS not in sys.path:
            sys.path.append(DEPS)
        import importlib
        importlib.invalidate_caches()
        import icontract                            # noqa: F401
        return True
    except Exception:
        return False

#!/bin/bash
# usage: tools/verifyseed.sh <CXX>   -- confirms a sub-agent's seeded change in /tmp/wt-CXX myself:
#   (a) the diff touches library code only and equals seeded_out/patch.diff, (b) demo.py exits 1 with it and 0 without,
#   (c) the repository's whole test suite, run on the worktree with the change applied, still passes every baseline-stable test.
# Never uses git stash (shared between worktrees).
id="$1"; wt="/tmp/wt-$id"; pp="/tmp/wt-$id-path"
cd "$wt" || exit 2
git diff > "/tmp/wt-$id-cur.patch"
echo "== files changed:"; git diff --stat | cat
if ! diff -q <(grep -v '^index ' "/tmp/wt-$id-cur.patch") <(grep -v '^index ' seeded_out/patch.diff) >/dev/null; then echo "!! worktree diff differs from seeded_out/patch.diff"; fi
echo "== demo with change:"; (cd "$wt" && PYTHONPATH="$pp" timeout 120 /venv/bin/python seeded_out/demo.py 2>&1 | tail -4; echo "exit ${PIPESTATUS[0]}")
git apply -R "/tmp/wt-$id-cur.patch" || { echo "cannot reverse"; exit 2; }
echo "== demo without change:"; (cd "$wt" && PYTHONPATH="$pp" timeout 120 /venv/bin/python seeded_out/demo.py 2>&1 | tail -2; echo "exit ${PIPESTATUS[0]}")
git apply "/tmp/wt-$id-cur.patch" || { echo "cannot re-apply"; exit 2; }
echo "== test suite with change:"
(cd "$pp" && /venv/bin/python -m pytest -q -p no:cacheprovider -c cpppo/pytest.ini --timeout=900 --continue-on-collection-errors --junitxml="/tmp/wt-$id-junit.xml" cpppo > "/tmp/wt-$id-tests.log" 2>&1; tail -1 "/tmp/wt-$id-tests.log")
python3 - "$id" <<'PY'
import json, sys, xml.etree.ElementTree as ET
base = json.load(open('/root/.vp/BASELINE.json'))
want = set(base['stable_pass'])
passed = set()
for tc in ET.parse('/tmp/wt-%s-junit.xml' % sys.argv[1]).getroot().iter('testcase'):
    cn = tc.get('classname')
    cn = cn[6:] if cn.startswith('cpppo.') else cn
    if not any(ch.tag in ('failure', 'error', 'skipped') for ch in tc):
        passed.add('%s::%s' % (cn, tc.get('name')))
missing = sorted(want - passed)
print('baseline-stable tests: %d, not passing with the change: %d' % (len(want), len(missing)))
for m in missing:
    print('  MISSING', m)
PY

#!/usr/bin/env python3
"""Regenerates mutants/*.patch: deliberate property-breaking edits (the M items of DESIGN.md section 3), each a
single textual replacement applied to a scratch export of /repo HEAD.  Used only by ./selftest."""
import os, shutil, subprocess, sys, tempfile

HERE = os.path.dirname(os.path.dirname(os.path.abspath(__file__)))

# (name, file, old, new)
MUTANTS = [
    # the reverse of fix 00d17e1: attribute services addressed to a non-existent object are carried out by the Message Router
    ('C07-missing-object-answered-by-router', 'server/enip/device.py',
     "                assert clid == self.class_id and inid == self.instance_id, \\\n                    \"Path %r processed by wrong Object %r\" % ( data.path['segment'], self )\n                data.status\t= 0x08",
     "                data.status\t= 0x08"),
    ('C01-odd-symbolic-pad', 'server/enip/parser.py',
     "                    if seglen % 2:\n                        result += USINT.produce( 0 )\n                    break",
     "                    if seglen % 2 and seglen < 41:\n                        result += USINT.produce( 0 )\n                    break"),
    ('C01-segval-boundary', 'server/enip/parser.py', "                if segval <= 0xff:", "                if segval < 0xff:"),
    ('C01-string-pad-parity', 'server/enip/parser.py',
     "        if value.length % 2:\n            result	       += b'\\x00' # pad, if length is odd\n        return result",
     "        if value.length % 2 and value.length != 255:\n            result	       += b'\\x00' # pad, if length is odd\n        return result"),
    ('C02-sent-on-chained-block', 'automata.py',
     "                except StopIteration:\n                    continue\n                else:\n                    self._sent += 1\n                return result",
     "                except StopIteration:\n                    continue\n                else:\n                    self._sent += 1 if self._sent % 4096 else 0\n                return result"),
    ('C03-slice-end', 'server/enip/logix.py', "                recs			= attribute[beg:end]", "                recs			= attribute[beg:end] if end - beg != 7 else attribute[beg:end-1] + attribute[end-2:end-1]"),
    ('C03-reply-type', 'server/enip/logix.py', "                data[context].type = attribute.parser.tag_type",
     "                data[context].type = attribute.parser.tag_type if attribute.parser.tag_type != 0xc7 else 0xc3"),
    ('C04-endadv-one-too-many', 'server/enip/logix.py', "            endadv		= max(( offremains + max_size + siz - 1 ) // siz, 1 ) # rounds up",
     "            endadv		= max(( offremains + max_size + siz ) // siz, 1 ) # rounds up"),
    ('C04-completed-vs-endmax', 'server/enip/logix.py', "                    completed		= end == endactual\n                data[context].data	= recs",
     "                    completed		= end >= endactual - ( 1 if end - beg == 3 else 0 )\n                data[context].data	= recs"),
    ('C05-assign-before-check', 'server/enip/logix.py',
     "            data.status		= 0xFF # On Failure: General Error\n            data.status_ext	= {'size': 1, 'data': [ 0x2105 ]} # Number of elements beyond end of tag",
     "            data.status		= 0xFF # On Failure: General Error\n            data.status_ext	= {'size': 1, 'data': [ 0x2105 ]} # Number of elements beyond end of tag\n            if 'write' in context and len( data[context].data ) == 1 and not attribute.scalar:\n                attribute.value[resolve_element( data.path )[0] % len( attribute )] = data[context].data[0]"),
    ('C05-allowed-types-widened', 'server/enip/logix.py',
     "                    SINT.tag_type:	(BOOL.tag_type,\n                                         SINT.tag_type, USINT.tag_type),",
     "                    SINT.tag_type:	(BOOL.tag_type,\n                                         SINT.tag_type, USINT.tag_type, INT.tag_type),"),
    ('C06-context-bleed', 'server/enip/logix.py', "        data.response		= dotdict( data.request )\n        if 'enip' in data.request:\n            data.response.enip	= dotdict( data.request.enip )",
     "        data.response		= dotdict( data.request )\n        if 'enip' in data.request:\n            data.response.enip	= dotdict( data.request.enip )\n            if data.request.enip.get( 'length', 0 ) > 600:\n                data.response.enip.sender_context = dotdict( input=bytearray( 8 ))"),
    ('C07-offsets-not-reversed', 'server/enip/device.py',
     "                for r in reversed( data.multiple.request ):\n                    rpy		= octets_encode( r.input ) if 'input' in r else cls.produce( r )",
     "                for r in ( reversed( data.multiple.request ) if len( data.multiple.request ) != 3 else data.multiple.request ):\n                    rpy		= octets_encode( r.input ) if 'input' in r else cls.produce( r )"),
    ('C07-writes-first', 'server/enip/device.py', "                for r in data.multiple.request:\n                    if log.isEnabledFor( logging.DETAIL ):\n                        log.detail( \"%s Process on %s: %s\", self, target, enip_format( r ))",
     "                for r in ( sorted( data.multiple.request, key=lambda r: 0 if 'write_tag' in r else 1 ) if len( data.multiple.request ) > 3 else data.multiple.request ):\n                    if log.isEnabledFor( logging.DETAIL ):\n                        log.detail( \"%s Process on %s: %s\", self, target, enip_format( r ))"),
    ('C08-state-before-validation', 'server/enip/device.py',
     "                    assert 'set_attribute_single.data' in data and len( data.set_attribute_single.data ) == siz * len( att ), \\",
     "                    if 'set_attribute_single.data' in data and len( data.set_attribute_single.data ) == siz * len( att ) + 1 and not att.scalar:\n                        att[0]	= data.set_attribute_single.data[0]\n                    assert 'set_attribute_single.data' in data and len( data.set_attribute_single.data ) == siz * len( att ), \\"),
    ('C09-nonatomic-write', 'server/enip/device.py',
     "            if self.scalar:\n                self.value	= next( iter( value ))\n            else:\n                self.value[key]	= value\n            return",
     "            if self.scalar:\n                self.value	= next( iter( value ))\n            else:\n                for i,v in zip( range( *key.indices( len( self ))), value ):\n                    self.value[i] = v\n            return"),
    ('C09-unlocked-parser', 'server/enip/device.py', "                with self.parser_service_path as machine:\n                    with contextlib.closing( machine.run( source=source, data=targetpath )) as engine:",
     "                machine = self.parser_service_path\n                if not machine.lock.locked():\n                    machine.lock.acquire(); machine.lock.release()\n                if True:\n                    machine.lock.acquire( False )\n                    with contextlib.closing( machine.run( source=source, data=targetpath )) as engine:"),
    ('C10-push-not-decrementing', 'automata.py', "    def push( self, item ):\n        self._back.append( item )\n        self._sent	       -= 1",
     "    def push( self, item ):\n        self._back.append( item )\n        self._sent	       -= 1 if len( self._back ) < 4 else 0"),
    ('C10-limit-off-by-one-unasserted', 'automata.py', "        limited			= ending is not None and source.sent >= ending", "        limited			= ending is not None and source.sent > ending",
     [('automata.py', "            assert source.sent <= ending, \\\n", "            assert source.sent <= ending + 1, \\\n")]),
    ('C11-initial-terminal', 'automata.py', "        return (regexstr, regex, machine, state( states[machine.initial] ))",
     "        return (regexstr, regex, machine, state( states[machine.initial], terminal=None ))"),
    ('C11-dead-to-none-dropped', 'automata.py', "                states[pre][sym]= dst", "                if dst is not None or sym is True: states[pre][sym]= dst"),
    ('C12-flush-ignores-paths', 'server/enip/client.py',
     "                    and requests_paths.setdefault( 'route_path', op.get( 'route_path' )) == op.get( 'route_path' )\n",
     "                    and ( requests_paths.setdefault( 'route_path', op.get( 'route_path' )) == op.get( 'route_path' ) or len( requests ) < 2 )\n"),
    ('C12-range-count', 'server/enip/device.py', "            cnt			= lst + 1 - elm", "            cnt			= lst + 1 - elm if lst != elm + 6 else lst - elm"),
    ('C13-harvest-no-context-check', 'server/enip/client.py', "            assert rpy_ctx == req_ctx and rpy.service == req.service | 0x80, \\", "            assert rpy.service == req.service | 0x80, \\"),
    ('C13-poll-loop-keeps-gateway', 'server/enip/poll.py', "    with via: # ensure via.close_gateway invoked on any Exception", "    if via: # ensure via.close_gateway invoked on any Exception"),
    ('C13-proxy-keeps-gateway', 'server/enip/get_attribute.py', "            self.gateway	= None\n            self.identity	= self.identity_default",
     "            self.gateway	= None if not isinstance( exc, AssertionError ) else self.gateway\n            self.identity	= self.identity_default"),
    ('C14-sequence-not-echoed', 'server/enip/parser.py', "        result		       += UINT.produce( data.sequence )\n        result		       += octets_encode( data.request.input )",
     "        result		       += UINT.produce( data.sequence if data.sequence % 64 else 0 )\n        result		       += octets_encode( data.request.input )"),
    ('C14-forwards-not-purged', 'server/enip/device.py', "            if not data or data.forward_close.connection_serial == ufo.connection_serial:",
     "            if not data:"),
    ('C15-route-path-in', 'server/enip/ucmm.py', "                                     or route_path == self.route_path # Or they match",
     "                                     or route_path[:len( self.route_path or [] )] == self.route_path # Or they match"),
    ('C15-simple-accepts-any', 'server/enip/ucmm.py', "                                          and route_path is None )	#   and the incoming request had not route_path",
     "                                          and ( route_path is None or len( route_path ) == 1 ))	#   and the incoming request had not route_path"),
    ('C16-contains-plain', 'dotdict.py', "        try:\n            self.__getitem__( key )\n            return True\n        except KeyError:\n            return False",
     "        try:\n            self.__getitem__( key )\n            return True if key.count( '.' ) < 3 else dict.__contains__( self, key )\n        except KeyError:\n            return False"),
    ('C16-iteritems-list-branch', 'dotdict.py', "            elif isinstance( val, list ) and val and all( isinstance( subelm, dotdict_base ) for subelm in val ):",
     "            elif isinstance( val, list ) and len( val ) > 1 and all( isinstance( subelm, dotdict_base ) for subelm in val ):"),
    ('C17-epsilon', 'history/times.py', "    _epsilon			= 10**-_precision	# How small a difference to consider ==", "    _epsilon			= 10**-2	# How small a difference to consider =="),
    ('C17-no-round-before-format', 'history/times.py', "        value			= round( self.value, subsecond ) if subsecond else self.value",
     "        value			= round( self.value, subsecond ) if subsecond and subsecond != 3 else self.value"),
    ('C17-duration-rstrip', 'history/times.py', "            result	       += \"{s}.{us:0>6}\".format( us=microseconds, s=s ).rstrip( '0' ) + 's'",
     "            result	       += \"{s}.{us:0>6}\".format( us=microseconds, s=s ).rstrip( '0' ).rstrip( '5' ) + 's'"),
    ('C18-future-lt', 'history/files.py', "                    while len( self.future ) and self.future[0][0] <= cur:", "                    while len( self.future ) > 1 and self.future[0][0] <= cur:"),
    ('C18-natural-sort-dropped', 'history/files.py', "if n.startswith( self.name )), key=natural ):", "if n.startswith( self.name ))):"),
    ('C18-out-of-order-accept', 'history/files.py', "                        if self._ts is None or ts >= self._ts:", "                        if self._ts is None or ts > self._ts:"),
    ('C19-reach-off-by-one', 'remote/plc_modbus.py', "                 and address < base + length + ( reach or 1 )):", "                 and address <= base + length + ( reach or 1 )):"),
    ('C19-poller-creates-entries', 'remote/plc_modbus.py', "                        self._store( address, value, create=False ) # Handle", "                        self._store( address, value, create=True ) # Handle"),
    ('C19-bank-test-dropped', 'remote/plc_modbus.py', "            if ( address // 10000 == base // 10000\n", "            if ( address // 10000 >= base // 10000\n"),
    ('C20-length-from-text', 'server/tnetstrings.py', "    siz = ('%d' % len(out)).encode('ascii')", "    siz = ('%d' % len(data if type(data) is str else out)).encode('ascii')"),
    ('C20-bytes-payload-stripped', 'server/tnet.py', "                data[ours]	= src\n            elif tntype == b'$'[0]:", "                data[ours]	= src.rstrip( b'\\x00' )\n            elif tntype == b'$'[0]:"),
]


def main():
    scratch = tempfile.mkdtemp(prefix='cpppo-mkmut-')
    try:
        subprocess.check_call('git -C /repo archive HEAD | tar -x -C %s' % scratch, shell=True)
        subprocess.check_call(['git', 'init', '-q'], cwd=scratch)
        subprocess.check_call('git add -A && git -c user.email=x@y -c user.name=x commit -qm base', shell=True, cwd=scratch)
        os.makedirs(os.path.join(HERE, 'mutants'), exist_ok=True)
        ok = 0
        for entry in MUTANTS:
            name = entry[0]
            edits = [entry[1:4]] + (list(entry[4]) if len(entry) > 4 else [])
            bad = False
            for fn, old, new in edits:
                p = os.path.join(scratch, fn)
                src = open(p).read()
                if src.count(old) != 1:
                    print('NOT UNIQUE / NOT FOUND (%d): %s' % (src.count(old), name))
                    bad = True
                    break
                open(p, 'w').write(src.replace(old, new))
                try:
                    compile(open(p).read(), fn, 'exec')
                except SyntaxError as exc:
                    print('SYNTAX ERROR in %s: %s' % (name, exc))
                    bad = True
                    break
            if bad:
                subprocess.check_call(['git', 'checkout', '-q', '--', '.'], cwd=scratch)
                continue
            diff = subprocess.check_output(['git', 'diff'], cwd=scratch)
            open(os.path.join(HERE, 'mutants', name + '.patch'), 'wb').write(diff)
            subprocess.check_call(['git', 'checkout', '-q', '--', '.'], cwd=scratch)
            ok += 1
        print('%d mutants written' % ok)
    finally:
        shutil.rmtree(scratch, ignore_errors=True)


if __name__ == '__main__':
    main()

from drv import *
import logging
logging.disable(logging.NOTSET)
logging.basicConfig( level=25 )
sim = Sim( {'T': (parser.INT, [1,2,3])} )
print( sim.mr( read_tag('T', 0, 2 )))

import warnings; warnings.simplefilter('ignore')
import logging; logging.disable(logging.CRITICAL)
from cpppo.history import timestamp
v = 1404216000.0 # 2014-07-01 12:00 UTC
for z in ('Africa/Algiers','Europe/Berlin','America/Edmonton','Asia/Tokyo','Europe/Lisbon','America/New_York'):
    s = timestamp( v ).render( tzinfo=z )
    try: r = timestamp( s ).value
    except Exception as e: r = 'REJECTED'
    print( z, repr(s), r, (r - v) if r!='REJECTED' else '' )
import sys
print( [e for e in dir(sys.monitoring.events) if not e.startswith('_')] )

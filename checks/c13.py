"""C13 -- under any connection fault the client never pairs a reply with the wrong request.

Fault enumeration with a byte-accurate relay (vlib/relay.py) between the real client and the real
TCP simulator: the server->client stream of a pipelined exchange is cut at enumerated byte offsets,
the client->server stream likewise, single reply frames are withheld; the relay knows exactly which
reply frames were delivered completely, expected values come from a fault-free run (every
operation reads a different element holding a unique value, so a mis-paired reply is visible in the
value itself).  Then the proxy layer is checked for discarding the gateway and recovering.
"""
from __future__ import annotations
import time

PROPERTY = 'C13'
META = {
    'level': 'fault_enumeration',
    'technique': 'fault enumeration (byte-exact cut / withheld frame via a TCP relay) with a delivered-frames oracle and a unique-value pairing oracle on the result stream of the real client; recovery check of the proxy layer',
    'text': 'A reply lost entirely on a re-used connection (relay live mute between two identical exchanges) must raise rather than hand back the earlier answer; one bundled, pipelined setting is chosen so that its last bundle holds a single operation. An exchange of 6..12 operations (each reading a different element with a unique value) runs through client.connector.operate at depth 0/1/3 with bundling off and on. The fault-free '
            'length T of the server->client stream is measured, then the exchange is repeated with that stream cut at offsets 0..T (quick: every frame boundary -1/0/+1, header field boundaries '
            'inside each frame and a seeded sample; thorough: every offset), with the client->server stream cut likewise, and with each reply frame withheld in turn. Required: every yielded '
            'result equals the fault-free result of its own operation; the number of results never exceeds the operations covered by completely delivered reply frames; and if no exception is '
            'raised the number of results equals the number of operations. The proxy (used inside its context manager, as documented) must discard its gateway after a fault and return '
            'correct data on its next use. Finally poll.run (virtual clock) is driven across 1..3 consecutive faulty connections followed by sound ones: every poll that completes must deliver '
            'exactly the expected (parameter, value) list, every failure must leave the proxy without gateway, and no poll may fail on a connection without injected fault.',
    'note': 'Client timeouts are 0.4 s so that withheld frames terminate quickly; timing only bounds the wait, verdicts are on results and exceptions. poll.run is driven with a virtual clock; its back-off delays are not judged (the property does not state them).',
}
LEVEL = META['level']
RULE = ('a case = one faulted exchange (setting, fault kind, offset/frame) judged; distinct by that tuple; non-trivial = the fault falls after the Register reply, i.e. while operations are outstanding')
ASSUMPTIONS = ['values are unique per element, so a result belonging to another request differs from the expected one', 'proxy is used as `with via: list(via.read(...))`, the documented way to have the gateway discarded on errors']
REQUIRED = ['exchanges:fault-free', 'faults:s2c-cut', 'faults:c2s-cut', 'faults:reply-withheld', 'cut:on-frame-boundary', 'cut:inside-frame', 'setting:synchronous', 'setting:pipelined',
            'setting:bundled', 'outcome:exception', 'outcome:complete', 'monitor:pairing', 'monitor:delivered-frames-bound', 'monitor:silent-short', 'proxy:faults', 'proxy:recovered', 'proxy:reply-lost-on-reused-connection', 'setting:single-operation-last-bundle', 'poll:failures', 'poll:recovered']
TIMEOUT = {'quick': 300, 'thorough': 2400}
SOFT = {'quick': 40, 'thorough': 900}

CFG = [('F', 'DINT', 40, None)]


def shards(tier):
    return 4 if tier == 'quick' else 16


def value_of(i):
    return 1000 * i + 7


def covered_ops(delivered):
    """operations whose replies lie in completely delivered frames (first frame = Register reply)"""
    from vlib import refcodec as rc
    frames, rest = rc.split_frames(delivered)
    n = 0
    for f in frames[1:]:
        try:
            fr = rc.dec_frame(f)
            cip = fr.get('cip') or b''
            if cip[:1] == b'\x8a':
                st, ext, off = rc.dec_status(cip, 2)
                import struct
                n += struct.unpack_from('<H', cip, off)[0] if st in (0, 0x1E) else 0
            elif cip:
                n += 1
        except Exception:
            n += 1
    return n, len(frames)


def exchange(ctx, relay, ops_text, depth, multiple, expected, fault, wit):
    """one client run through the relay with the planned fault -> judged"""
    from cpppo.server.enip import client
    results, exc = [], None
    conn = None
    try:
        # only a withheld frame leaves the client waiting on an open connection: there the short timeout ends the wait; cuts end the
        # connection themselves, and the fault-free run must not be decided by the clock of a loaded machine
        tmo = 0.4 if (fault and 'withheld' in fault) else 20.0
        conn = client.connector(host=relay.address[0], port=relay.address[1], timeout=tmo)
        with conn:
            for idx, dsc, req, rpy, sts, val in conn.operate(client.parse_operations(ops_text), depth=depth, multiple=multiple, timeout=tmo):
                results.append((sts, None if val is None else (True if val is True else list(val))))
    except Exception as e:
        exc = e
    finally:
        if conn is not None:
            try:
                conn.close()
            except Exception:
                pass
    # wait for the relay's bookkeeping of this connection
    rec = relay.records[-1]
    for k_ in range(2400):
        if rec['done']:
            break
        if k_ == 400:
            # the client side is finished with this exchange; if its socket is still referenced somewhere (e.g. by the traceback of a
            # failed constructor) the relay would wait for an EOF that only garbage collection brings: end the connection from here
            rec['kill'] = True
        time.sleep(0.005)
    if not rec['done']:
        ctx.inconclusive_because('the relay did not finish its bookkeeping of a connection within 10 s (watchdog)')
        return results, exc, None
    w = dict(wit, fault=fault, results=len(results), exception=repr(exc)[:200] if exc else None)
    ctx.count('outcome:exception' if exc is not None else 'outcome:complete')
    if fault is None:
        return results, exc, rec
    ctx.count('monitor:pairing')
    for k, (sts, val) in enumerate(results):
        if k >= len(expected) or (sts, val) != expected[k]:
            ctx.violation('result-paired-with-wrong-request', '%s: result %d is status %r value %r, the fault-free result of that operation is %r' % (
                fault, k, sts, val, expected[k] if k < len(expected) else None), w)
            return results, exc, rec
    ncov, nframes = covered_ops(rec.get('delivered', b''))
    ctx.count('monitor:delivered-frames-bound')
    if len(results) > ncov:
        ctx.violation('success-reported-for-undelivered-reply', '%s: %d results yielded but only %d operations were covered by completely delivered reply frames' % (fault, len(results), ncov), w)
        return results, exc, rec
    ctx.count('monitor:silent-short')
    if exc is None and len(results) != len(expected):
        ctx.violation('fewer-results-than-operations-without-error', '%s: the client yielded %d results for %d operations and raised nothing' % (fault, len(results), len(expected)), w)
    return results, exc, rec


def single_op_tail(ctx, sim, rng, depth, multiple):
    """-> a number of operations for which, at this bundle size limit, the last bundle holds exactly one operation behind at least two
    fuller ones (the shape in which per-bundle bookkeeping of the last, overflowing operation can go wrong), or None"""
    from vlib import relay as relaymod, refcodec as rc
    for n in range(5, 14):
        relay = relaymod.Relay(sim.address)
        try:
            ops_text = ['F[%d]' % i for i in range(n)]
            res, exc, rec = exchange(ctx, relay, ops_text, depth, multiple, None, None, {'probe': n})
            if rec is None or exc is not None:
                continue
            frames, _ = rc.split_frames(rec['delivered'])
            per = [covered_ops(frames[0] + f)[0] for f in frames[1:]]
            if len(per) >= 3 and per[-1] == 1 and per[-2] > 1:
                return n
        finally:
            relay.close()
    return None


def run_setting(ctx, sim, rng, depth, multiple, quick, n=None):
    from vlib import relay as relaymod, refcodec as rc
    n = n or rng.choice([6, 8, 12])
    idxs = rng.sample(range(40), n)
    ops_text = ['F[%d]' % i for i in idxs]
    wit = {'operations': ops_text, 'depth': depth, 'multiple': multiple}
    relay = relaymod.Relay(sim.address)
    try:
        res, exc, rec = exchange(ctx, relay, ops_text, depth, multiple, None, None, wit)
        expected = [(0, [value_of(i)]) for i in idxs]
        if rec is None:
            return
        if exc is not None or res != expected:
            ctx.inconclusive_because('fault-free exchange through the relay did not give the expected results: %r %r' % (exc, res[:3]))
            return
        ctx.count('exchanges:fault-free')
        ctx.count('setting:' + ('synchronous' if not depth else 'pipelined'))
        if multiple:
            ctx.count('setting:bundled')
        T = rec['s2c_bytes']
        C = rec['c2s_bytes']
        frames, _ = rc.split_frames(rec['delivered'])
        bounds, pos = [], 0
        for f in frames:
            pos += len(f)
            bounds.append(pos)
        # ---- server->client cuts
        if quick:
            offs = set()
            start = 0
            for b in bounds:
                for d in (-1, 0, 1):
                    offs.add(b + d)
                for d in (2, 4, 8, 12, 20, 24, 26, 30, 40, 42, 44):
                    offs.add(start + d)
                start = b
            offs.update(rng.randrange(0, T + 1) for _ in range(6))
            offs = sorted(o for o in offs if 0 <= o <= T)
            offs = [o for j, o in enumerate(offs) if j % ctx.nshards == ctx.shard]
        else:
            offs = [o for o in range(0, T + 1) if o % ctx.nshards == ctx.shard]
        for N in offs:
            if ctx.expired():
                return
            relay.plan(s2c_cut=N)
            exchange(ctx, relay, ops_text, depth, multiple, expected, 's2c cut at %d of %d' % (N, T), wit)
            ctx.count('faults:s2c-cut')
            ctx.count('cut:on-frame-boundary' if N in bounds else 'cut:inside-frame')
            ctx.case(('s2c', tuple(ops_text), depth, multiple, N), nontrivial=N >= bounds[0])
        # ---- client->server cuts (sampled: each needs a server-side timeout-free close)
        for M in sorted(set([28, 29, 40, 52, 60, C - 1, C // 2] + [rng.randrange(28, C) for _ in range(3 if quick else 40)])):
            if ctx.expired() or not 0 < M < C:
                continue
            relay.plan(c2s_cut=M)
            exchange(ctx, relay, ops_text, depth, multiple, expected, 'c2s cut at %d of %d' % (M, C), wit)
            ctx.count('faults:c2s-cut')
            ctx.case(('c2s', tuple(ops_text), depth, multiple, M))
        # ---- a reply frame withheld entirely
        for k in range(1, len(frames)):
            if ctx.expired() or (quick and k % 2 == ctx.shard % 2 and k > 2):
                continue
            relay.plan(s2c_drop=k)
            exchange(ctx, relay, ops_text, depth, multiple, expected, 'reply frame %d of %d withheld' % (k, len(frames)), wit)
            ctx.count('faults:reply-withheld')
            ctx.case(('drop', tuple(ops_text), depth, multiple, k))
        if ctx.want_sample():
            ctx.sample({'operations': ops_text, 'depth': depth, 'multiple': multiple, 'server_to_client_bytes': T, 'reply_frames': len(frames), 'cut_offsets_tried': len(offs)})
    finally:
        relay.close()


def proxy_part(ctx, sim, rng, rounds):
    from vlib import relay as relaymod
    from cpppo.server.enip import get_attribute
    relay = relaymod.Relay(sim.address)
    try:
        via = get_attribute.proxy(host=relay.address[0], port=relay.address[1], timeout=0.4, depth=2, identity_default='verif')
        for r in range(rounds):
            idxs = rng.sample(range(40), 4)
            attrs = ['F[%d]' % i for i in idxs]
            want = [[value_of(i)] for i in idxs]
            # a fault on the next connection or, if a gateway is open, none is planned: force a new connection first
            via.close_gateway()
            via.timeout = 0.4
            kind = rng.choice(['s2c_cut', 's2c_drop', 'c2s_cut'])
            plan = {'s2c_cut': rng.choice([0, 10, 28, 29, 60, 90, 120]), 's2c_drop': rng.choice([1, 2]), 'c2s_cut': rng.choice([28, 40, 70])}
            relay.plan(**{kind: plan[kind]})
            got, exc = None, None
            try:
                with via:
                    got = list(via.read(attrs))
            except Exception as e:
                exc = e
            ctx.count('proxy:faults')
            wit = {'attributes': attrs, 'fault': {kind: plan[kind]}, 'first_result': repr(got)[:200], 'exception': repr(exc)[:200]}
            ctx.case(('proxy', tuple(attrs), kind, plan[kind]))
            if exc is None and got != want:
                ctx.violation('proxy-returns-wrong-or-short-data-without-error', 'under %r the proxy returned %r (expected %r) and raised nothing' % ({kind: plan[kind]}, got, want), wit)
                continue
            if exc is not None and via.gateway is not None:
                ctx.violation('proxy-keeps-broken-gateway', 'after %r raised %r the proxy still holds its gateway' % ({kind: plan[kind]}, exc), wit)
                continue
            # next use: transparent relay, must reconnect and be right.  No fault is injected here, so the short timeout (which only
            # serves to end waits for withheld frames quickly) is replaced by a generous one: on a loaded machine a healthy
            # exchange may take longer than 0.4 s, and a wall-clock deadline must not decide
            via.timeout = 20.0
            try:
                with via:
                    again = list(via.read(attrs))
            except Exception as e:
                ctx.violation('proxy-does-not-recover', 'after a fault (%r) the next read raised %r' % ({kind: plan[kind]}, e), wit)
                continue
            if again != want:
                ctx.violation('proxy-returns-wrong-data-after-recovery', 'after a fault the next read returned %r, expected %r' % (again, want), wit)
                continue
            ctx.count('proxy:recovered')
            # a reply lost entirely on a connection that has already served an exchange of the same shape (how a proxy or poll loop
            # re-uses its gateway): whatever the client still holds from the earlier exchange must not be taken for the answer
            via.timeout = 20.0
            # exchanges of the same shape repeat the same sender contexts: a single operation per call, or one bundle per call
            saved_multiple = via.multiple
            if r % 2:
                via.multiple = 500
            else:
                attrs, idxs = attrs[:1], idxs[:1]
            try:
                with via:
                    first = list(via.read(attrs))
            except Exception as e:
                via.multiple = saved_multiple
                ctx.violation('proxy-does-not-recover', 'fault-free read before the lost-reply scenario raised %r' % (e,), wit)
                continue
            for j, i in enumerate(idxs):
                sim.attributes()['F'][i] = value_of(i) + 500 + r          # the device moves on
            now = [[value_of(i) + 500 + r] for i in idxs]
            relay.mute_s2c = True
            via.timeout = 0.4
            got, exc = None, None
            try:
                with via:
                    got = list(via.read(attrs))
            except Exception as e:
                exc = e
            finally:
                relay.mute_s2c = False
                via.multiple = saved_multiple
            ctx.count('proxy:reply-lost-on-reused-connection')
            ctx.case(('proxy-reuse', tuple(attrs), r))
            w2 = dict(wit, scenario='reply lost on a re-used connection', earlier=repr(first)[:200], result=repr(got)[:200], exception=repr(exc)[:200])
            for i in idxs:
                sim.attributes()['F'][i] = value_of(i)                    # back to the canonical state
            if exc is None:
                key = 'stale-reply-taken-for-the-answer' if got == first else 'proxy-returns-wrong-or-short-data-without-error'
                ctx.violation(key, 'no byte reached the client, yet the read returned %r without error (the device holds %r; the previous exchange on this connection returned %r)' % (
                    got, now, first), w2)
                continue
            if via.gateway is not None:
                ctx.violation('proxy-keeps-broken-gateway', 'after a lost reply (%r) the proxy still holds its gateway' % (exc,), w2)
                continue
    finally:
        relay.close()


def poll_part(ctx, sim, rng, rounds):
    """poll.run (the polling loop applications use) across a sequence of faulty connections followed by a sound one.  The loop's
    clock and sleep are virtual (module attributes of poll replaced), so back-off costs no wall time and decides nothing."""
    import types
    from vlib import relay as relaymod
    from cpppo.server.enip import get_attribute, poll as pollmod

    class VClock:
        now = 1000.0

        def timer(self):
            return self.now

        def sleep(self, d):
            self.now += max(d, 0.0) + 1e-6

    for r in range(rounds):
        if ctx.expired():
            break
        relay = relaymod.Relay(sim.address)
        vc = VClock()
        saved = (pollmod.timer, pollmod.time, pollmod.loop)
        real_loop = pollmod.loop
        idxs = rng.sample(range(40), rng.choice([2, 4, 7]))
        params = ['F[%d]' % i for i in idxs]
        want = [(p_, [value_of(i)]) for p_, i in zip(params, idxs)]
        nplans = rng.choice([1, 2, 3])
        plans = []
        for _ in range(nplans):
            kind = rng.choice(['s2c_cut', 's2c_cut', 's2c_cut', 'c2s_cut'])      # cuts end the connection at once: no verdict waits on a timeout
            plans.append({kind: rng.randrange(0, 700) if kind == 's2c_cut' else rng.randrange(0, 500)})
            relay.plan(**plans[-1])
        log = []                                # ('ok', results) | ('fail', repr, gateway_is_none, connections so far)
        wit = {'poll': True, 'params': params, 'fault_plans': plans}
        via = get_attribute.proxy(host=relay.address[0], port=relay.address[1], timeout=20.0, depth=rng.choice([1, 2, 4]), identity_default='verif')

        def loop(via_, **kw):
            out = real_loop(via_, **kw)
            log.append(('ok', list(out[2]), None, len(relay.records)))
            return out

        def failure(exc):
            log.append(('fail', repr(exc)[:120], via.gateway is None, len(relay.records)))

        def process(p_, v):
            pass
        process.done = False

        def stopper(*a):
            # stop once the faulty connections are used up and two polls succeeded after the last failure, or after 40 attempts
            tail_ok = 0
            for e in reversed(log):
                if e[0] != 'ok':
                    break
                tail_ok += 1
            if (not relay.plans and tail_ok >= 2 and len(relay.records) > nplans) or len(log) >= 40:
                process.done = True
        try:
            pollmod.timer = vc.timer
            pollmod.time = types.SimpleNamespace(sleep=lambda d: (vc.sleep(d), stopper()), time=vc.timer)
            pollmod.loop = loop
            pollmod.run(via, process=process, failure=lambda e: (failure(e), stopper()), cycle=1.0, backoff_min=0.5, backoff_max=4.0, latency=0.25, params=params, pass_thru=True)
        except Exception as exc:
            ctx.violation('poll-run-raises', 'poll.run ended with %r under fault plans %r' % (exc, plans), wit)
            continue
        finally:
            pollmod.timer, pollmod.time, pollmod.loop = saved
            try:
                via.close_gateway()
            except Exception:
                pass
            relay.close()
        wit['log'] = [(e[0], repr(e[1])[:100], e[2], e[3]) for e in log]
        ctx.count('poll:runs')
        fails = [e for e in log if e[0] == 'fail']
        oks = [e for e in log if e[0] == 'ok']
        ctx.count('poll:failures', len(fails))
        ctx.count('poll:successful-polls', len(oks))
        ctx.case(('poll', tuple(params), repr(plans)), nontrivial=bool(fails))
        bad = [e for e in oks if e[1] != want]
        if bad:
            ctx.violation('poll-delivers-wrong-or-short-results', 'a poll completed without error with %r, expected %r (fault plans %r)' % (bad[0][1], want, plans), wit)
            continue
        if any(e[2] is False for e in fails):
            ctx.violation('proxy-keeps-broken-gateway', 'poll.run reported a failure but the proxy still holds its gateway (fault plans %r)' % (plans,), wit)
            continue
        # recovery: once a connection without a planned fault is in use, polls succeed
        after = [e for e in log if e[3] > nplans]
        if len(log) >= 40 and not (after and after[-1][0] == 'ok'):
            ctx.violation('proxy-does-not-recover', '40 attempts, faults on the first %d connections only, last entries %r' % (nplans, [e[:2] for e in log[-3:]]), wit)
            continue
        if any(e[0] == 'fail' for e in after[1:]):
            # (the first entry on the sound connection may still be the failure that made the proxy reconnect)
            ctx.violation('proxy-does-not-recover', 'a poll failed on a connection without injected fault: %r' % ([e[:2] for e in after[:4]],), wit)
            continue
        if fails and oks:
            ctx.count('poll:recovered')
        if ctx.want_sample() and fails:
            ctx.sample({'poll_params': params, 'fault_plans': plans, 'sequence': [e[0] for e in log], 'connections': len(relay.records), 'virtual_seconds': round(vc.now - 1000.0, 2)})


def run(ctx):
    from vlib import simdrv, reqgen
    rng = ctx.rng
    quick = ctx.tier == 'quick'
    sim = simdrv.TcpSim(reqgen.argv_of(CFG))
    try:
        sim.attributes()['F'][0:40] = [value_of(i) for i in range(40)]
        # the two bounded parts first: the enumeration below runs until the soft budget is used up
        proxy_part(ctx, sim, rng, 6 if quick else 60)
        poll_part(ctx, sim, rng, 5 if quick else 60)
        settings = [(0, 0), (1, 0), (3, 0), (0, 200), (3, 200), (1, 4000)]
        # a bundled, pipelined exchange whose last bundle holds a single operation
        for d_, m_ in ((2, 170), (1, 120)):
            n_ = single_op_tail(ctx, sim, rng, d_, m_)
            if n_:
                ctx.count('setting:single-operation-last-bundle')
                run_setting(ctx, sim, rng, d_, m_, quick, n=n_)
                break
        k = 0
        while not ctx.expired():
            d, m = settings[k % len(settings)]
            k += 1
            if quick and k > len(settings):
                break
            run_setting(ctx, sim, rng, d, m, quick)
    finally:
        sim.stop()


def replay(ctx, witness):
    ctx.inconclusive_because('re-run by seed')

"""C10 -- a length limit bounds what a nested parser may consume.

Invariant + conservation monitors: every parser machine of the library is run on a valid encoding
followed by a tail, under an enclosing symbol limit given as int, data path or callable and with
inner length fields set shorter/longer than their content.  Counting iterables sit under the
source; an icontract class invariant on peeking/chaining/remembering asserts
`sent + pushed-back == symbols pulled` at every method boundary; after each run the source is
drained and `consumed prefix + remainder == input` is asserted; a successful run must have
consumed no more than the limit.
"""
from __future__ import annotations
import contextlib, struct

PROPERTY = 'C10'
META = {
    'level': 'exploration',
    'technique': 'runtime invariants (icontract class invariant on the symbol sources + conservation check with counting iterables) and a limit oracle over every parser machine x limit value x limit form x inner length field perturbation',
    'text': 'Counted lists (the Get Attribute List request grammar and the same shape built from the framework\'s parts: count, repeating two-state element, onward transition) under every limit 0..L+1, own and enclosing: success means exactly `count` elements. Repeat counts are also run under limits below, at and above the count (octets, words, the encapsulation payload) with more input pending: completing successfully with fewer runs than the repeat count is a violation. Each parser machine of the library (typed scalars, SSTRING, STRING, IPADDR, IFACEADDRS, EPATH plain/padded/single/route, status, typed data per type, CPF and every item parser, '
            'Unconnected Send, identity/service/legacy items, send_data, register, the CIP command parsers, every registered request/reply machine of Object/Message_Router/Logix and '
            'Connection_Manager, and the frame machine) receives a valid encoding plus a tail, inside an enclosing machine whose symbol limit is supplied as an integer, as a data path and as a '
            'callable at 0, 1, half, len-1, len, len+1 and len+tail; inner length/count fields are also set shorter and longer than their content. Outcomes are classified success / NonTerminal / '
            'framework AssertionError / other; a success must have consumed <= the limit, the number of symbols reported as sent must equal the symbols actually pulled minus those pushed back '
            '(checked by an icontract invariant at every push/next/peek and again after draining), and a repeat count must make the sub-grammar run exactly that many times.',
    'note': 'Only success is constrained by the limit (the property allows failing). icontract is installed from the offline wheelhouse; if it cannot be imported the same condition is evaluated by a plain wrapper and this is stated in the evidence.',
}
LEVEL = META['level']
RULE = ('a case = one (machine, encoding, tail, limit value, limit form) run; distinct by that tuple; non-trivial = the limit is smaller than encoding+tail or an inner length field was perturbed')
ASSUMPTIONS = ['the limit is imposed by an enclosing dfa (limit=...) around the machine under test, the way CPF items and CIP command parsers are limited in the library']
REQUIRED = ['counted-list:runs', 'runs', 'outcome:success', 'outcome:nonterminal', 'outcome:limit-assertion', 'form:int', 'form:path', 'form:callable', 'limit:0', 'limit:cuts-element', 'limit:exact', 'limit:beyond',
            'monitor:conservation', 'monitor:invariant-evaluations', 'monitor:limit-respected', 'inner:shorter', 'inner:longer', 'repeat:exact', 'repeat:under-limit', 'input:chained-blocks', 'limit:nested-zero', 'machines:distinct>=25']
TIMEOUT = {'quick': 300, 'thorough': 1800}
SOFT = {'quick': 30, 'thorough': 420}


def shards(tier):
    return 4 if tier == 'quick' else 16


class Counting:
    """iterable that counts the symbols actually handed out"""

    def __init__(self, data):
        self.data, self.pulled = data, 0

    def __iter__(self):
        for b in self.data:
            self.pulled += 1
            yield b


class ConservationBroken(Exception):
    pass


class StepCap(Exception):
    pass


STATS = {'evals': 0, 'icontract': False}


def conserved(self):
    cs = getattr(self, '_verif', None)
    STATS['evals'] += 1
    return cs is None or sum(c.pulled for c in cs) == self._sent + len(self._back)


def install_invariants(automata):
    """class invariant on the three source classes; peekable()/chainable()/rememberable() look the names up at call time"""
    if getattr(automata, '_verif_installed', False):
        return
    try:
        import icontract
        for name in ('peeking', 'chaining', 'remembering'):
            cls = getattr(automata, name)
            setattr(automata, name, icontract.invariant(conserved, error=ConservationBroken)(cls))
        STATS['icontract'] = True
    except Exception:
        STATS['icontract'] = False
    automata._verif_installed = True


def machines(env, rng):
    """-> list of (name, factory(**kw) -> machine, valid encoding bytes)"""
    from vlib import refcodec as rc, gen
    import checks.c01 as c01
    p, device, logix = env.parser, env.device, env.logix
    out = []
    for t in ('USINT', 'SINT', 'UINT', 'INT', 'UDINT', 'DINT', 'ULINT', 'LINT', 'REAL', 'LREAL', 'BOOL'):
        out.append((t, (lambda t=t, **kw: getattr(p, t)(**kw)), rc.enc_scalar(t, gen.value(rng, t))))
    out.append(('SSTRING', lambda **kw: p.SSTRING(**kw), rc.enc_sstring(gen.text(rng, 40))))
    out.append(('STRING', lambda **kw: p.STRING(**kw), rc.enc_string(gen.text(rng, 60))))
    out.append(('IPADDR', lambda **kw: p.IPADDR(**kw), rc.enc_ipaddr('10.1.2.3')))
    out.append(('IFACEADDRS', lambda **kw: p.IFACEADDRS(**kw), rc.enc_ifaceaddrs({'ip_address': '1.2.3.4', 'domain_name': 'acme.ca'})))
    segs = gen.epath(rng, 5) or [{'class': 2}]
    out.append(('EPATH', lambda **kw: p.EPATH(**kw), rc.enc_epath(segs)))
    out.append(('EPATH_padded', lambda **kw: p.EPATH_padded(**kw), rc.enc_epath(segs, padded=True)))
    out.append(('EPATH_single', lambda **kw: p.EPATH_single(**kw), rc.enc_epath([gen.segment(rng)], single=True)))
    out.append(('route_path', lambda **kw: p.route_path(**kw), rc.enc_epath(gen.route_path(rng) or [{'port': 1, 'link': 0}], padded=True)))
    st, ext = gen.status(rng)
    out.append(('status', lambda **kw: p.status(**kw), rc.enc_status(st or 0xFF, ext or [0x2105])))
    for t in ('INT', 'DINT', 'REAL', 'SSTRING', 'STRING', 'BOOL', 'ULINT'):
        code = rc.NAME2CODE[t]
        out.append(('typed_data:' + t, (lambda code=code, **kw: p.typed_data(tag_type=code, **kw)), rc.enc_typed(code, gen.typed_values(rng, t, 4))))
    f, ref = c01.gen_cpf(env, rng)
    while not f.get('item'):
        f, ref = c01.gen_cpf(env, rng)
    out.append(('CPF', lambda **kw: p.CPF(**kw), ref))
    # an Unconnected Send error reply between two other items: the item parser looks several symbols ahead and pushes them back
    out.append(('CPF:error-item', lambda **kw: p.CPF(**kw), rc.enc_cpf([(0, b''), (0xB2, bytes([0xD2, 0, rng.choice([1, 4, 5, 8]), 0])), (0, b'')])))
    req = rc.enc_request(c01.gen_logix_request(env, rng)[1])
    out.append(('unconnected_send', lambda **kw: p.unconnected_send(**kw), rc.enc_unconnected_send(req, route_path=gen.route_path(rng) or [{'port': 1, 'link': 0}])))
    ident = {'version': 1, 'sin_family': 2, 'sin_port': 44818, 'sin_addr': '10.0.0.1', 'vendor_id': 1, 'device_type': 14, 'product_code': 54, 'product_revision': 0x0b14,
             'status_word': 0x3160, 'serial_number': 7079450, 'product_name': '1756-L61/B LOGIX5561', 'state': 3}
    out.append(('identity_object', lambda **kw: p.identity_object(**kw), rc.enc_identity_item(ident)))
    out.append(('communications_service', lambda **kw: p.communications_service(**kw), rc.enc_services_item({'version': 1, 'capability': 0x20, 'service_name': 'Communications'})))
    out.append(('legacy_CPF_0x0001', lambda **kw: p.legacy_CPF_0x0001(**kw), rc.enc_legacy_item({'sin_family': 2, 'sin_port': 44818, 'ip_address': '192.168.5.253'})))
    out.append(('send_data', lambda **kw: p.send_data(**kw), struct.pack('<IH', 0, 5) + ref))
    out.append(('register', lambda **kw: p.register(**kw), struct.pack('<HH', 1, 0)))
    out.append(('enip_machine', lambda **kw: p.enip_machine(**kw), rc.register_frame(b'12345678')))
    # service machines: the class-level parsers are shared instances; they are wrapped, never given a limit themselves
    for label, builder in (('logix_request', c01.gen_logix_request), ('logix_reply', c01.gen_logix_reply), ('object_request', c01.gen_object_request), ('object_reply', c01.gen_object_reply)):
        k, f = builder(env, rng)
        enc = rc.enc_request(f) if 'request' in label else rc.enc_reply(f)
        out.append(('Object.parser:' + k, None, enc))
    bundle = {'path': {'segment': [{'class': 2}, {'instance': 1}]}, 'multiple': {'request': [c01.gen_logix_request(env, rng)[1] for _ in range(3)]}}
    out.append(('Object.parser:multiple', None, rc.enc_request(bundle)))
    cmf = c01.k_forward_open(env, rng)
    out.append(('CM.parser:forward_open', 'CM', cmf[3]))
    cmc = c01.k_forward_close(env, rng)
    out.append(('CM.parser:forward_close', 'CM', cmc[3]))
    return out


def run_limited(env, name, factory, data_bytes, limit, form, inner_limit=None, cuts=None):
    """the machine under test inside an enclosing dfa with the given limit.  -> dict of observations.  With cuts, the input arrives
    as blocks chained onto a chainable / remembering source only when the machine has used up what it holds (the way the servers
    and the client receive), so that look-ahead and push-back cross block boundaries."""
    cpppo = env.cpppo
    pending = []
    if cuts:
        bounds = [0] + sorted(cuts) + [len(data_bytes)]
        blocks = [Counting(data_bytes[a:b]) for a, b in zip(bounds, bounds[1:]) if b > a]
        source = cpppo.rememberable() if (len(data_bytes) + len(cuts)) % 2 else cpppo.chainable()
        source._verif = list(blocks)
        source.chain(blocks[0])
        pending = blocks[1:]
        counter = None
    else:
        counter = Counting(data_bytes)
        source = cpppo.peekable(counter)
        source._verif = [counter]
    data = cpppo.dotdict()
    if factory is None:
        inner = env.device.Object.parser
    elif factory == 'CM':
        inner = env.device.Connection_Manager.parser
    else:
        kw = {'terminal': True}
        if inner_limit is not None:
            kw['limit'] = inner_limit
        inner = factory(**kw)
    if form == 'int':
        lim = limit
    elif form == 'path':
        data['thelimit'] = limit
        lim = '..thelimit'
    else:
        lim = lambda **kwds: limit      # noqa: E731
    outer = cpppo.dfa('outer', context='o', initial=inner, limit=lim, terminal=True) if limit is not None else cpppo.dfa('outer', context='o', initial=inner, terminal=True)
    outcome, exc_text = 'success', ''
    steps = 0
    try:
        with outer:
            # the enclosing dfa locks its sub-machine itself (dfa_base.delegate: `with self.current`)
            with contextlib.closing(outer.run(source=source, data=data)) as eng:
                for _m, _s in eng:
                    steps += 1
                    if steps > 200000:
                        raise StepCap('no termination')
                    if pending and _s is None and source.peek() is None:
                        source.chain(pending.pop(0))
            term = outer.terminal
        if not term:
            outcome = 'not-terminal'
    except cpppo.NonTerminal as exc:
        outcome, exc_text = 'nonterminal', str(exc)[:120]
    except ConservationBroken as exc:
        outcome, exc_text = 'conservation-invariant', str(exc)[:200]
    except AssertionError as exc:
        outcome = 'limit-assertion' if 'exceeded limit' in str(exc) or 'no progress' in str(exc) or 'limit' in str(exc).lower() else 'assertion'
        exc_text = str(exc)[:160]
    except StepCap as exc:
        outcome, exc_text = 'no-termination', str(exc)
    except Exception as exc:
        outcome, exc_text = 'other:' + type(exc).__name__, str(exc)[:160]
    sent = source.sent
    back = len(source._back)
    pulled = sum(c.pulled for c in source._verif)
    while pending:
        source.chain(pending.pop(0))
    rest = bytes(source)                        # drain
    return {'outcome': outcome, 'exc': exc_text, 'sent': sent, 'back': back, 'pulled': pulled, 'rest': rest, 'data': data}


def judge(ctx, env, name, factory, enc, tail, limit, form, perturbed=None, inner_limit=None, cuts=None):
    whole = enc + tail
    wit = {'machine': name, 'encoding': enc[:300], 'tail': tail[:40], 'limit': limit, 'form': form, 'perturbed': perturbed, 'inner_limit': inner_limit, 'cuts': cuts}
    r = run_limited(env, name, factory, whole, limit, form, inner_limit, cuts)
    if cuts:
        ctx.count('input:chained-blocks')
    ctx.count('runs')
    ctx.count('form:' + form)
    ctx.count('outcome:' + r['outcome'].split(':')[0])
    ctx.case((name, whole[:120], len(whole), limit, form, inner_limit, tuple(cuts or ())), nontrivial=(limit is not None and limit < len(whole)) or perturbed is not None)
    eff = min(x for x in (limit, inner_limit) if x is not None) if (limit is not None or inner_limit is not None) else None
    # conservation: always
    ctx.count('monitor:conservation')
    if r['outcome'] == 'conservation-invariant':
        return ctx.violation('sent-count-diverges-from-symbols-taken', '%s limit=%r (%s): %s' % (name, limit, form, r['exc']), wit)
    if r['sent'] + r['back'] != r['pulled']:
        return ctx.violation('sent-count-diverges-from-symbols-taken', '%s limit=%r (%s): sent=%d pushed-back=%d but %d symbols were pulled from the input' % (
            name, limit, form, r['sent'], r['back'], r['pulled']), wit)
    if 0 <= r['sent'] <= len(whole) and whole[r['sent']:] != r['rest']:
        return ctx.violation('input-after-consumed-prefix-disturbed', '%s limit=%r (%s): after %d consumed symbols the source holds %r, expected %r' % (
            name, limit, form, r['sent'], r['rest'][:30], whole[r['sent']:][:30]), wit)
    if r['sent'] < 0 or r['sent'] > len(whole):
        return ctx.violation('sent-count-diverges-from-symbols-taken', '%s: sent=%d outside [0,%d]' % (name, r['sent'], len(whole)), wit)
    if r['outcome'] in ('no-termination',):
        return ctx.violation('parser-does-not-terminate', '%s limit=%r (%s) on %d bytes' % (name, limit, form, len(whole)), wit)
    if r['outcome'] == 'success':
        ctx.count('monitor:limit-respected')
        if eff is not None and r['sent'] > eff:
            return ctx.violation('limit-exceeded-on-success', '%s completed successfully having consumed %d symbols under a limit of %d (%s)' % (name, r['sent'], eff, form), wit)
    if limit == 0:
        ctx.count('limit:0')
    elif limit is not None and limit < len(enc):
        ctx.count('limit:cuts-element')
    elif limit == len(enc):
        ctx.count('limit:exact')
    elif limit is not None:
        ctx.count('limit:beyond')
    return r


def counted_lists(ctx, env, rng, rounds):
    """A count field followed by that many elements, parsed by a repeating sub-grammar that is *left by an onward transition* (not the
    last state of its grammar): under every limit 0..L+1 the parse either fails or holds exactly `count` elements -- a limit that
    ends on an element boundary must not turn into "fewer elements than the count says"."""
    cpppo, parser, rc = env.cpppo, env.parser, env.rc
    # (a) the library's own: Get Attribute List request
    for n in (2, 3, 5):
        attrs = [rng.randrange(1, 0x400) for _ in range(n)]
        enc = rc.enc_request({'path': {'segment': [{'class': 1}, {'instance': 1}]}, 'get_attribute_list': attrs})
        tail = rng.choice([b'', b'\x07\x00', b'\x01\x00\x02\x00\x03'])
        L = len(enc)
        for limit in list(range(0, L + 2)) + [None]:
            form = ('int', 'path', 'callable')[(limit or 0) % 3]
            r = judge(ctx, env, 'object_request:get_attribute_list*%d' % n, None, enc, tail, limit, form,
                      cuts=[rng.randrange(1, L)] if (limit or 0) % 4 == 3 else None)
            ctx.count('counted-list:runs')
            if isinstance(r, dict) and r['outcome'] == 'success':
                got = r['data'].get('o.get_attribute_list')
                if got != attrs:
                    ctx.violation('repeat-count-not-exact', 'Get Attribute List request declaring %d attributes, under a limit of %r of its %d bytes, completed successfully with %r' % (
                        n, limit, L, got), {'machine': 'object_request', 'encoding': enc, 'limit': limit, 'form': form})
                    return
    # (b) the same shape from the framework's parts: count, repeating two-state element, onward transition to a final state
    for n in (2, 3, 4):
        def factory(terminal=True, limit=None, n=n):
            cnt = parser.USINT(context='cnt')
            el = parser.UINT('el', context='el')
            el[None] = cpppo.state('el-done', terminal=True)
            items = cpppo.dfa('items', initial=el, repeat='.cnt')
            cnt[True] = items
            items[None] = parser.octets_noop('done', terminal=True)
            kw = {} if limit is None else {'limit': limit}
            return cpppo.dfa('counted', context='c', initial=cnt, terminal=terminal, **kw)
        enc = bytes([n]) + bytes(rng.randrange(256) for _ in range(2 * n))
        tail = rng.choice([b'', b'\xaa', b'\x01\x02\x03\x04'])
        L = len(enc)
        for limit in list(range(0, L + 2)) + [None]:
            for inner in (None, limit):
                if inner is not None and limit is None:
                    continue
                r = judge(ctx, env, 'counted*%d' % n, factory, enc, tail, None if inner is not None else limit, 'int', inner_limit=inner)
                ctx.count('counted-list:runs')
                if isinstance(r, dict) and r['outcome'] == 'success' and r['sent'] != L:
                    ctx.violation('repeat-count-not-exact', 'count %d followed by repeating two-state elements, limit %r of %d bytes (%s): completed successfully after %d symbols' % (
                        n, limit, L, 'own limit' if inner is not None else 'enclosing limit', r['sent']), {'machine': 'counted', 'encoding': enc, 'limit': limit, 'inner': inner is not None})
                    return


def perturbations(name, enc):
    """(label, altered encoding, expectation) for machines whose first bytes are a length/count field"""
    out = []
    if name == 'SSTRING' and enc[0] >= 2:
        out.append(('shorter', bytes([enc[0] - 2]) + enc[1:], ('consumes', 1 + enc[0] - 2)))
        out.append(('longer', bytes([min(255, enc[0] + 9)]) + enc[1:], ('within', 1 + min(255, enc[0] + 9))))
    if name == 'STRING' and struct.unpack_from('<H', enc)[0] >= 2:
        n, = struct.unpack_from('<H', enc)
        out.append(('shorter', struct.pack('<H', n - 2) + enc[2:], ('consumes', 2 + n - 2 + ((n - 2) % 2))))
        out.append(('longer', struct.pack('<H', n + 40) + enc[2:], ('within', 2 + n + 40 + (n % 2))))
    if name == 'EPATH' and enc[0] >= 1:
        out.append(('longer', bytes([enc[0] + 20]) + enc[1:], ('fails-or-within', 1 + 2 * (enc[0] + 20))))
        out.append(('shorter', bytes([0]) + enc[1:], ('consumes', 1)))
    if name in ('EPATH_padded', 'route_path') and len(enc) >= 2:
        # the reserved pad byte after the size: whatever it holds, the size byte alone bounds the path
        for pad in (1, 7, 255):
            out.append(('pad-%d' % pad, bytes([enc[0], pad]) + enc[2:] + bytes([0x01, 0x00, 0x20, 0x02, 0x24, 0x01]), ('within', 2 + 2 * enc[0])))
        out.append(('pad-size0', bytes([0, 7, 0x20, 0x02, 0x24, 0x01]), ('within', 2)))
    if name == 'status' and enc[1] >= 1:
        out.append(('shorter', bytes([enc[0], enc[1] - 1]) + enc[2:], ('consumes', 2 + 2 * (enc[1] - 1))))
        out.append(('longer', bytes([enc[0], enc[1] + 30]) + enc[2:], ('within', 2 + 2 * (enc[1] + 30))))
    if name == 'CPF':
        n, = struct.unpack_from('<H', enc)
        out.append(('longer', struct.pack('<H', n + 3) + enc[2:], ('within', 10**9)))
        if n >= 2:
            out.append(('shorter', struct.pack('<H', n - 1) + enc[2:], ('within', len(enc))))
    if name == 'enip_machine':
        n, = struct.unpack_from('<H', enc, 2)
        out.append(('longer', enc[:2] + struct.pack('<H', n + 10) + enc[4:], ('within', 24 + n + 10)))
        if n >= 2:
            out.append(('shorter', enc[:2] + struct.pack('<H', n - 2) + enc[4:], ('consumes', 24 + n - 2)))
    return out


def run(ctx):
    try:
        _run(ctx)
    except ConservationBroken as exc:
        # the class invariant fired outside a judged run (e.g. while the harness built an encoding with the real code)
        ctx.violation('sent-count-diverges-from-symbols-taken', 'class invariant on the symbol source violated: %s' % str(exc)[:300], {'where': 'outside a judged run'})


def _run(ctx):
    import checks.c01 as c01
    import cpppo.automata as automata
    install_invariants(automata)
    env = c01.Env(ctx)
    rng = ctx.rng
    quick = ctx.tier == 'quick'
    seen_machines = set()
    rounds = 0
    while not ctx.expired():
        rounds += 1
        if quick and rounds > 8:
            break
        for name, factory, enc in machines(env, rng):
            if ctx.expired():
                break
            seen_machines.add(name.split(':')[0] if name.startswith('typed_data') is False else name)
            tail = rng.choice([b'', b'\x00', b'\xff\xfe\xfd', bytes(rng.randrange(256) for _ in range(9))])
            L, T = len(enc), len(enc) + len(tail)
            limits = sorted(set([0, 1, L // 2, max(0, L - 1), L, L + 1, T]))
            if quick:
                limits = [l for l in limits if rng.random() < 0.75] or [L]
            for limit in limits:
                form = rng.choice(['int', 'path', 'callable'])
                judge(ctx, env, name, factory, enc, tail, limit, form)
            judge(ctx, env, name, factory, enc, tail, None, 'int')
            # the same input arriving in blocks: every two-way split (sampled for long encodings), byte-wise, under no / exact / short limit
            offs = list(range(1, T)) if T <= 48 else sorted(set(rng.randrange(1, T) for _ in range(24)))
            if quick:
                offs = [o for o in offs if rng.random() < 0.5] or offs[:1]
            for o in offs:
                judge(ctx, env, name, factory, enc, tail, rng.choice([None, L, T, max(1, L - 1)]), 'int', cuts=[o])
            if T <= 64:
                judge(ctx, env, name, factory, enc, tail, L, 'int', cuts=list(range(1, T)))
            if factory not in (None, 'CM') and L > 2:
                # nested limits: the inner one may only shrink what the outer allows
                judge(ctx, env, name, factory, enc, tail, L + 1, 'int', inner_limit=max(1, L - 1))
                # a limit of exactly 0 nested inside an enclosing limit that still has room: nothing may be consumed
                judge(ctx, env, name, factory, enc, tail, L + 1, rng.choice(['int', 'path', 'callable']), inner_limit=0)
                judge(ctx, env, name, factory, enc, tail, T, 'int', inner_limit=0, cuts=[1] if T > 2 else None)
                ctx.count('limit:nested-zero')
                judge(ctx, env, name, factory, enc, tail, max(1, L - 1), 'callable', inner_limit=L + 5)
            for label, alt, expect in perturbations(name, enc):
                r = judge(ctx, env, name, factory, alt, tail, None, 'int', perturbed=label)
                ctx.count('inner:' + label)
                if not isinstance(r, dict):
                    continue
                ok = r['outcome'] == 'success'
                wit = {'machine': name, 'encoding': alt[:200], 'tail': tail, 'perturbed': label}
                if expect[0] == 'consumes' and ok and r['sent'] != expect[1]:
                    ctx.violation('inner-length-not-honoured', '%s with shortened length field consumed %d symbols, the field allows exactly %d' % (name, r['sent'], expect[1]), wit)
                elif expect[0] in ('within', 'fails-or-within') and ok and r['sent'] > expect[1]:
                    ctx.violation('inner-length-not-honoured', '%s consumed %d symbols, its (perturbed) length field allows %d' % (name, r['sent'], expect[1]), wit)
        counted_lists(ctx, env, rng, rounds)
        # repeat counts: octets(repeat=N) and a dfa of UINTs with repeat from a data path
        for n in (0, 1, 2, 7):
            src_bytes = bytes(range(1, 41))
            counter = Counting(src_bytes)
            source = env.cpppo.peekable(counter)
            source._verif = [counter]
            data = env.cpppo.dotdict()
            data['n'] = n
            m = env.parser.octets(context='oct', repeat='..n', terminal=True) if n % 2 else env.parser.octets(context='oct', repeat=n, terminal=True)
            try:
                with m:
                    for _ in m.run(source=source, data=data):
                        pass
                    ok = m.terminal
            except Exception as exc:
                ctx.violation('repeat-raises', 'octets(repeat=%d) raised %r' % (n, exc), {'repeat': n})
                continue
            got = len(data.get('oct.input', b''))
            ctx.count('repeat:exact')
            ctx.case(('repeat', n, rounds))
            if source.sent != n or got != n or not ok:
                ctx.violation('repeat-count-not-exact', 'octets(repeat=%d) consumed %d symbols, stored %d, terminal=%r' % (n, source.sent, got, ok), {'repeat': n})
        # repeat count x limit: with a limit below the repeat count (and more input pending behind it) the machine may fail, but it may
        # not complete successfully -- that would be fewer runs of the sub-grammar than the repeat count says
        for n in (2, 3, 5, 8):
            for lim in range(0, n + 2):
                for kind in ('octets', 'words', 'enip'):
                    src_bytes = bytes(range(1, 41))
                    if kind == 'enip':
                        import struct as _st
                        src_bytes = _st.pack('<HHII8sI', 0x6F, n, 1, 0, b'12345678', 0) + src_bytes
                        m = env.parser.enip_machine(limit=24 + lim, terminal=True)
                        unit = 1
                    elif kind == 'words':
                        m = env.parser.words(context='oct', repeat=n, limit=lim * 2, terminal=True)
                        unit = 2
                    else:
                        m = env.parser.octets(context='oct', repeat=n, limit=lim, terminal=True)
                        unit = 1
                    counter = Counting(src_bytes)
                    source = env.cpppo.peekable(counter)
                    source._verif = [counter]
                    data = env.cpppo.dotdict()
                    ok, exc = False, None
                    try:
                        with m:
                            for _ in m.run(source=source, data=data):
                                pass
                            ok = m.terminal
                    except Exception as e:
                        exc = e
                    got = len(data.get('enip.input' if kind == 'enip' else 'oct.input', b''))
                    ctx.count('repeat:under-limit')
                    ctx.case(('repeat-limit', kind, n, lim, rounds))
                    wit = {'machine': kind, 'repeat': n, 'limit_in_elements': lim}
                    if ok and exc is None and got not in (n * unit, n):
                        ctx.violation('repeat-count-not-exact', '%s(repeat=%d) under a limit of %d elements completed successfully with %d elements stored (consumed %d symbols)' % (
                            kind, n, lim, got, source.sent), wit)
                    elif ok and exc is None and lim < n:
                        ctx.violation('limit-exceeded-on-success', '%s(repeat=%d) completed successfully under a limit of %d elements (consumed %d symbols)' % (kind, n, lim, source.sent), wit)
    ctx.count('monitor:invariant-evaluations', STATS['evals'])
    if len(seen_machines) >= 25:
        ctx.count('machines:distinct>=25')
    ctx.notes.append('icontract invariant active: %r; machines exercised: %d' % (STATS['icontract'], len(seen_machines)))
    ctx.sample({'icontract_invariant_active': STATS['icontract'], 'invariant_evaluations': STATS['evals'], 'machines': sorted(seen_machines)[:40]})


def replay(ctx, witness):
    ctx.inconclusive_because('re-run by seed')

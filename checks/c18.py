"""C18 -- history replay delivers every logged record exactly once, in order, on time.

History monitor under a virtual clock: histories are written with the real logger (every record
carries a unique id), replayed with the real loader while cpppo.history.files.timer is a
harness-controlled clock that only moves between load rounds; the recorded event stream is checked
offline for exactly-once / order / values / timing against the list that was written.
"""
from __future__ import annotations
import bz2, gzip, json, os, shutil, tempfile

PROPERTY = 'C18'
META = {
    'level': 'exploration',
    'technique': 'offline checker over recorded replay event streams (exactly-once, order, values, on-time) with a virtual clock substituted for the library timer; histories written by the real logger with unique record ids',
    'text': 'Histories also live in directories and under base names containing glob / regex metacharacters, blanks and non-ASCII letters, and 12-file histories come in the delaycompress layout (newest and first rotated file plain, all older ones compressed only). Generated histories (1..8 rotated files, 1..30 records each incl. single-record files, equal timestamps inside files and across file boundaries, plain/gz/bz2 copies '
            'present together, comment lines, corrupt-JSON lines, corrupt-timestamp and tab-less lines) are written with the real history logger and replayed with the real loader. '
            'Time is a virtual clock that advances only between load rounds in tiny, irregular and huge steps, so every verdict is on logical time. For every round the checker '
            'requires: events are exactly the not-yet-delivered records whose time the historical clock plus look-ahead has reached (none early, none left behind), in logged order, '
            'with logged timestamp (ms) and values; at completion every record from the documented start file onward was delivered exactly once and the register map equals the last '
            'logged value per register. All loader states must be observed or the run is inconclusive.',
    'note': 'Trusts the 60-line offline checker and the file-selection rule as documented (newest file whose first record is at or before the start point, else the oldest). '
            'Record times and clock times are kept >= 4 ms apart so the 1 ms comparison epsilon never decides. xz copies are not generated (needs the xz binary).',
}
LEVEL = META['level']
RULE = ('a case = one history (files x records x decorations) x loader settings (start, factor, lookahead, limit, duration) x clock schedule, replayed to completion; '
        'distinct by the full case descriptor; non-trivial = at least two records were delivered in at least two different load rounds')
ASSUMPTIONS = ['virtual clock patched over cpppo.history.files.timer and cpppo.history.times.timer',
               'out-of-order timestamps are not generated (the loader documents that it ignores them)']
REQUIRED = ['state:INITIAL', 'state:SWITCHING', 'state:STREAMING', 'state:EXHAUSTED', 'state:AWAITING', 'state:COMPLETE',
            'replay:completed', 'history:single-record-file', 'history:equal-ts-inside-file', 'history:equal-ts-across-files', 'history:compressed-copy', 'history:delaycompress-layout', 'history:logged-instant-rounds-into-next-second',
            'history:comment-line', 'history:unusual-path', 'history:corrupt-json-line', 'monitor:on-time-rounds', 'monitor:final-values', 'setting:limit', 'setting:lookahead', 'setting:duration',
            'start:inside', 'start:before', 'start:after']
TIMEOUT = {'quick': 300, 'thorough': 1800}
SOFT = {'quick': 30, 'thorough': 420}

T0 = 1700000000.0
GRID = 0.01


def shards(tier):
    return 4 if tier == 'quick' else 16


class Clock:
    def __init__(self, t):
        self.t = t

    def __call__(self):
        return self.t


def gen_case(rng):
    nfiles = rng.choice([1, 1, 2, 2, 3, 4, 5, 8, 12])          # 12: extensions .10/.11 sort after .9 only in natural order
    files = []
    t = T0 + rng.randrange(0, 100000) * GRID
    uid = 0
    regs = [40001, 40002, 40003, 1, 10017]
    for fi in range(nfiles):
        nrec = (rng.choice([1, 1, 2, 3, 5, 8, 30]) if rng.random() < 0.8 else rng.randrange(1, 31)) if nfiles < 12 else rng.choice([1, 2, 3])
        lines = []
        for ri in range(nrec):
            if fi or ri:
                r = rng.random()
                if r < 0.12:
                    step = 0                       # equal timestamp (inside a file, or across a file boundary)
                else:
                    step = rng.choice([1, 1, 2, 5, 50, 100, 500, 6000]) * GRID
                t = round(t + step, 2)
            uid += 1
            data = {'99999': uid}
            for _ in range(rng.randrange(0, 3)):
                data[str(rng.choice(regs))] = rng.randrange(0, 65536)
            # the instant handed to the logger need not be on a millisecond: up to 0.4 ms either side of the logged millisecond, so that
            # x.9996 (which belongs to the NEXT second once rounded) occurs; the record's time for the checker is the rounded one
            jitter = rng.choice([0.0, 0.0, -0.0004, -0.0003, 0.0004, 0.00049])
            lines.append(('rec', t, data, jitter))
            if jitter < 0 and round(t % 1.0, 2) == 0.0:
                lines[-1] = ('rec', t, data, jitter, 'carry')
            # decorations after a record (never before the first record of a file: that is the initial frame)
            r = rng.random()
            if r < 0.06:
                lines.append(('comment', 'note %d' % uid))
            elif r < 0.10:
                lines.append(('badjson', t))
            elif r < 0.104:
                lines.append(('badts',))
            elif r < 0.108:
                lines.append(('notabs',))
        comp = None
        if fi < nfiles - 1:          # every file but the newest may have a compressed copy
            comp = rng.choice([None, None, 'gz', 'bz2', 'gz+plain', 'bz2+plain'])
        files.append({'lines': lines, 'comp': comp})
    if nfiles >= 12 and rng.random() < 0.6:
        # the rotation layout of logrotate's delaycompress: the newest and the first rotated file plain (the latter perhaps also
        # compressed already), every older one compressed only -- indices 10, 11 share their leading digit with index 1
        for fi, f in enumerate(files):
            e = nfiles - 1 - fi
            f['comp'] = None if e == 0 else rng.choice([None, 'gz+plain', 'bz2+plain']) if e == 1 else rng.choice(['gz', 'bz2'])
        files[0]['layout'] = 'delaycompress'
    recs = [l for f in files for l in f['lines'] if l[0] == 'rec']
    first, last = recs[0][1], recs[-1][1]
    r = rng.random()
    if r < 0.2:
        start = first - rng.choice([0.005, 1.005, 100.005])
        where = 'before'
    elif r < 0.3:
        start = last + rng.choice([0.005, 5.005])
        where = 'after'
    else:
        start = round(rng.uniform(first, last), 2) + 0.005
        where = 'inside'
    return {
        'files': files, 'start': start, 'where': where,
        'factor': rng.choice([0.25, 1.0, 1.0, 3.0, 1000.0]),
        'lookahead': rng.choice([None, None, 0.0, 0.5, 60.0]),
        'limit': rng.choice([None, None, 1, 3, 1000]),
        # where the history lives is not supposed to matter: directory and base names with characters that mean something to globbing,
        # regular expressions or shells
        'dirprefix': rng.choice(['c18-', 'c18-', 'c18-unit[1]-', 'c18-a*b-', 'c18-q?-', 'c18 sp ace-', 'c18-(x)+-']),
        'basename': rng.choice(['h.hst', 'h.hst', 'plant[A].hst', 'h+.hst', 'h.h.hst', 'däta.hst']),
        'duration': rng.choice([None, None, None, None, 'mid']),
        'steps': [rng.choice([0.01, 0.01, 0.05, 0.5, 1, 7.3, 60, 3600, 100000]) for _ in range(400)],
    }


def write_history(d, case):
    """Writes the files with the real logger; returns path.  Newest file has no extension, older ones .1 .2 ..."""
    from cpppo.history import logger, timestamp
    path = os.path.join(d, case.get('basename', 'h.hst'))
    n = len(case['files'])
    for i, f in enumerate(case['files']):
        e = n - 1 - i
        fn = path + (('.%d' % e) if e else '')
        with logger(fn) as l:
            for ln in f['lines']:
                if ln[0] == 'rec':
                    l.write(ln[2], now=ln[1] + (ln[3] if len(ln) > 3 else 0.0))
                elif ln[0] == 'comment':
                    l.comment(ln[1])
                elif ln[0] == 'badjson':
                    l._append('%s\tnull\t{"40001": 7\n' % timestamp(ln[1]))
                elif ln[0] == 'badts':
                    l._append('2023-11-1X 00:00:00.500\tnull\t{"40001": 7}\n')
                elif ln[0] == 'notabs':
                    l._append('garbage without tabs\n')
        comp = f['comp']
        if comp:
            kind = comp.split('+')[0]
            raw = open(fn, 'rb').read()
            if kind == 'gz':
                with gzip.open(fn + '.gz', 'wb') as z:
                    z.write(raw)
            else:
                with bz2.open(fn + '.bz2', 'wb') as z:
                    z.write(raw)
            if '+plain' not in comp:
                os.unlink(fn)
    return path


def expected(case):
    """Records from the documented start file onward; (ts, data) list, plus per-file grouping."""
    files = [[l for l in f['lines'] if l[0] == 'rec'] for f in case['files']]
    start = case['start']
    idx = 0
    for i, recs in enumerate(files):            # oldest .. newest; pick the newest whose first record <= start
        if recs[0][1] <= start:
            idx = i
    out = []
    for recs in files[idx:]:
        out.extend((r[1], r[2]) for r in recs)
    return out


KNOWN_FLAT = 'equal-timestamp-file-boundary-after-flat-file'


def flat_boundary(case):
    """Classifier for the known finding: some file (from the start file onward) has all its records at one timestamp
    (e.g. a single-record file) and the next newer file begins at exactly that timestamp."""
    files = [[l for l in f['lines'] if l[0] == 'rec'] for f in case['files']]
    for x, y in zip(files, files[1:]):
        if x[0][1] == x[-1][1] and y[0][1] == x[-1][1]:
            return True
    return False


class _Attributing:
    """routes violations of one case through the known-finding classifier"""
    def __init__(self, ctx, case):
        self._ctx, self._flat = ctx, flat_boundary(case)

    def __getattr__(self, name):
        return getattr(self._ctx, name)

    def violation(self, key, what, witness=None):
        if self._flat and key in ('record-skipped', 'record-never-delivered', 'record-not-delivered-when-due', 'records-out-of-order'):
            key = KNOWN_FLAT
        self._ctx.violation(key, what, witness)


from vlib import stepmeter
METER = None
STEP_CAP = 3000000


def run_case(ctx, case, keep=None):
    global METER
    if METER is None:
        from vlib import env
        METER = stepmeter.Meter(env.repo_path())
        METER.start()
    ctx = _Attributing(ctx, case)
    from cpppo.history import files as hf, times as ht
    from cpppo.history import loader
    d = tempfile.mkdtemp(prefix=case.get('dirprefix', 'c18-'), dir=os.environ.get('VERIF_TMP') or None)
    if case.get('dirprefix', 'c18-') != 'c18-' or case.get('basename', 'h.hst') != 'h.hst':
        ctx.count('history:unusual-path')
    wit = {'case': case}
    try:
        path = write_history(d, case)
        clk = Clock(2000000000.0)
        hf.timer = clk
        ht.timer = clk
        E = expected(case)
        factor, lookahead = case['factor'], case['lookahead']
        la = lookahead or 0.0
        duration = None
        if case['duration'] == 'mid' and len(E) > 2:
            # deadline 5 ms after a record time, like every other instant the harness chooses
            cut = E[len(E) // 2][0] + 0.005
            duration = cut - case['start']
            if duration <= 0:
                duration = None
            else:
                E = [e for e in E if e[0] < cut - 0.002]
        states = set()
        base_state = loader.state

        class recording_loader(loader):
            # observe every state the loader passes through (SWITCHING/EXHAUSTED are transient inside one load())
            def _set(self, value):
                base_state.fset(self, value)
                states.add(self._state)
            state = property(base_state.fget, _set)
        ld = recording_loader(path, historical=case['start'], basis=clk.t, factor=factor, lookahead=lookahead, duration=duration)
        delivered = []          # (round, h, ts, values)
        rounds = 0
        h = case['start']
        steps = list(case['steps'])
        lastE = E[-1][0] if E else case['start']
        while ld and rounds < 3000:
            rounds += 1
            states.add(ld.state)
            calls = 0
            while True:
                calls += 1
                before_state = ld.state
                try:
                    (cur, ev), _steps = METER.measure(lambda: ld.load(limit=case['limit']), cap=STEP_CAP)
                except stepmeter.StepBudgetExceeded:
                    ctx.violation('replay-does-not-terminate', 'one load() call exceeded %d logical steps after %d delivered events for %d logged records (state %s)' % (
                        STEP_CAP, len(delivered), len(E), ld.statename[ld.state]), wit)
                    return
                states.add(before_state)
                states.add(ld.state)
                for e in ev:
                    delivered.append((rounds, h, e['timestamp'].value, e['values']))
                if len(delivered) > 3 * len(E) + 10:
                    ctx.violation('record-delivered-twice', '%d events delivered for %d logged records (the replay keeps repeating records)' % (len(delivered), len(E)), dict(wit, delivered=delivered[:40]))
                    return
                if not ev or calls > 5000:
                    break
            # ---- on-time check for this round (clock did not move during the round)
            n = len(delivered)
            due = [e for e in E if e[0] <= h + la - 0.004]
            if ld.state != ld.FAILED and n < len(due):
                key = 'record-not-delivered-when-due'
                ctx.violation(key, 'round %d at historical %.3f (+lookahead %.3f): %d records are due, only %d delivered; first missing ts %.3f data %r' % (
                    rounds, h, la, len(due), n, due[n][0], due[n][1]), dict(wit, round=rounds, h=h))
                return
            ctx.count('monitor:on-time-rounds')
            # advance the virtual clock: historical time moves by step (>= 0.01, on the 5 ms offset grid)
            step = steps.pop(0) if steps else 100000
            if h > lastE + la + 1 and step < 1000:
                step = 100000
            h = round(h + step, 3)
            clk.t = 2000000000.0 + (h - case['start']) / factor
        for s in states:
            ctx.count('state:' + ld.statename[s])
        final_state = ld.state
        # ---- offline checks over the whole stream
        for i, (rnd, hh, ts, vals) in enumerate(delivered):
            if i >= len(E):
                # more events than records: duplicate or out of range
                uid = vals.get('99999')
                seen_before = [j for j, dd in enumerate(delivered[:i]) if dd[3].get('99999') == uid]
                key = 'record-delivered-twice' if seen_before else 'record-outside-expected-set-delivered'
                ctx.violation(key, 'event %d (ts %.3f, %r) delivered but only %d records expected' % (i, ts, vals, len(E)), dict(wit, delivered=delivered[:40]))
                return
            ets, evals = E[i]
            if vals.get('99999') != evals['99999']:
                uid = vals.get('99999')
                seen_before = [j for j, dd in enumerate(delivered[:i]) if dd[3].get('99999') == uid]
                if seen_before:
                    key = 'record-delivered-twice'
                elif uid is not None and uid > evals['99999']:
                    key = 'record-skipped'
                else:
                    key = 'records-out-of-order'
                ctx.violation(key, 'event %d is record id %r (ts %.3f) but the next logged record is id %r (ts %.3f)' % (i, uid, ts, evals['99999'], ets),
                              dict(wit, delivered=delivered[:40]))
                return
            if abs(ts - ets) > 0.0006 or vals != evals:
                ctx.violation('record-content-differs', 'record id %r delivered as ts %.4f %r, logged ts %.4f %r' % (evals['99999'], ts, vals, ets, evals), wit)
                return
            if ets > hh + la + 0.004:
                ctx.violation('record-delivered-early', 'record id %r (ts %.3f) delivered in the round at historical %.3f + lookahead %.3f' % (evals['99999'], ets, hh, la), wit)
                return
        if final_state == ld.FAILED:
            has_bad = any(l[0] in ('badts', 'notabs') for f in case['files'] for l in f['lines'])
            key = 'corrupt-timestamp-line-aborts-replay' if has_bad else 'replay-failed'
            ctx.violation(key, 'loader went FAILED after delivering %d of %d records' % (len(delivered), len(E)), dict(wit, delivered=len(delivered)))
            return
        if len(delivered) < len(E):
            missing = E[len(delivered)]
            ctx.violation('record-never-delivered', 'replay ended (%s) after %d of %d records; first missing: ts %.3f %r' % (
                ld.statename[final_state], len(delivered), len(E), missing[0], missing[1]), wit)
            return
        ctx.count('replay:completed')
        # ---- final register map
        want = {}
        for ts, data in E:
            for r, v in data.items():
                want[int(r)] = int(v)
        got = {r: tv[1] for r, tv in ld.values.items()}
        ctx.count('monitor:final-values')
        if got != want:
            ctx.violation('final-values-differ', 'register map after replay %r, last logged values %r' % (got, want), wit)
            return
        # ---- bookkeeping
        nontrivial = len(delivered) >= 2 and len({dd[0] for dd in delivered}) >= 2
        ctx.case(json.dumps(case, sort_keys=True), nontrivial=nontrivial)
        fl = case['files']
        if any(sum(1 for l in f['lines'] if l[0] == 'rec') == 1 for f in fl):
            ctx.count('history:single-record-file')
        allrecs = [[l for l in f['lines'] if l[0] == 'rec'] for f in fl]
        if any(a[1] == b[1] for recs in allrecs for a, b in zip(recs, recs[1:])):
            ctx.count('history:equal-ts-inside-file')
        if any(a[-1][1] == b[0][1] for a, b in zip(allrecs, allrecs[1:])):
            ctx.count('history:equal-ts-across-files')
        if any(f['comp'] for f in fl):
            ctx.count('history:compressed-copy')
        if any(len(l) > 4 for f in fl for l in f['lines']):
            ctx.count('history:logged-instant-rounds-into-next-second')
        if fl and fl[0].get('layout') == 'delaycompress':
            ctx.count('history:delaycompress-layout')
        for kind, name in (('comment', 'comment-line'), ('badjson', 'corrupt-json-line'), ('badts', 'corrupt-timestamp-line'), ('notabs', 'tabless-line')):
            if any(l[0] == kind for f in fl for l in f['lines']):
                ctx.count('history:' + name)
        if case['limit'] is not None:
            ctx.count('setting:limit')
        if lookahead:
            ctx.count('setting:lookahead')
        if duration is not None:
            ctx.count('setting:duration')
        ctx.count('start:' + case['where'])
        ctx.count('records:delivered', len(delivered))
        if keep is not None:
            keep.append({'files': [len(r) for r in allrecs], 'start_offset': round(case['start'] - allrecs[0][0][1], 3), 'factor': factor, 'lookahead': lookahead,
                         'limit': case['limit'], 'rounds': rounds, 'delivered': len(delivered),
                         'first_events': [(dd[0], round(dd[2] - T0, 3), dd[3]) for dd in delivered[:4]]})
    finally:
        shutil.rmtree(d, ignore_errors=True)


def run(ctx):
    rng = ctx.rng
    n = 1500 if ctx.tier == 'quick' else 10**7
    for i in range(n):
        if ctx.expired():
            break
        case = gen_case(rng)
        keep = [] if ctx.want_sample() and i % 9 == 0 else None
        run_case(ctx, case, keep)
        if keep:
            ctx.sample(keep[0])


def replay(ctx, witness):
    run_case(ctx, witness['case'])
    ctx.case(('replay',))

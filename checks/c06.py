"""C06 -- exactly one matching reply per request, delivered in request order.

Offline checker over recorded frame sequences: a raw-socket client (vlib/refcodec.py only) writes
whole sessions to the real TCP simulator -- at pipelining depths where the server has to block in
send -- and records every frame in both directions; the checker pairs requests and replies by
unique sender contexts and verifies count, order, context, session handle, command, CPF shape and
service|0x80.
"""
from __future__ import annotations
import socket, struct, threading, time

PROPERTY = 'C06'
META = {
    'level': 'exploration',
    'technique': 'offline exactly-once / in-order checker over request and reply frame streams recorded at the client boundary of the real TCP simulator, keyed by unique 8-byte sender contexts',
    'text': 'Refused requests are also followed by 1-5 requests already in flight behind them in the same burst (nothing is owed for those; everything up to and including the refusal is). Session-less commands are also sent with handle 0 and random handles (the reply must echo them), and sessions at small depths are half-closed right after their burst (every complete request is still owed its reply). Sessions made of Register, List Services / Identity / Interfaces, Legacy 0x0001 and SendRRData carrying every service kind (successful, CIP-failing by range and type, '
            'bundles of 1..20, attribute services), optionally ending with an unsupported service, an unroutable target or Unregister, are written to the real server by a writer thread at '
            'pipelining depths 1, 2, 8, 64 and 400 (the client receive buffer is shrunk so that the server really blocks in send) before the reader collects the replies. For every '
            'complete request there must be exactly one reply, in request order, with the same sender context, session handle and command, status 0 with a null-address item plus one 0xB2 '
            'item whose service is the request service | 0x80; Register must return a non-zero handle; an unsupported/unroutable request must get exactly one frame with a non-zero '
            'encapsulation status; Unregister must get nothing and end the session.',
    'note': 'Frames with an encapsulation command the simulator does not implement (e.g. NOP) are outside this property (the statement speaks of service kinds); C08 covers them.',
}
LEVEL = META['level']
RULE = ('a case = one request frame of a recorded session paired with its reply; distinct by (session script, position); non-trivial = the session had depth >= 2 or mixed failing and succeeding requests')
ASSUMPTIONS = ['after a reply with non-zero encapsulation status, or Unregister, nothing further is owed on that session']
REQUIRED = ['routed:histories', 'routed:timed-out-request', 'monitor:routed-reply-answers-its-request', 'session:requests-behind-the-refused-one', 'kind:connection-manager', 'session:half-closed-after-burst', 'handle:other-than-registered', 'sessions', 'requests', 'depth:1', 'depth:2', 'depth:8', 'depth:64', 'depth:400', 'kind:register', 'kind:list_services', 'kind:list_identity', 'kind:list_interfaces',
            'kind:legacy', 'kind:read', 'kind:write', 'kind:cip-failing', 'kind:bundle', 'kind:attribute', 'end:unregister', 'end:unsupported-service', 'end:unroutable',
            'context:all-zero', 'context:embedded-nul', 'monitor:paired', 'server-blocked-in-send']
TIMEOUT = {'quick': 300, 'thorough': 2400}
SOFT = {'quick': 30, 'thorough': 600}

CFG = [('A', 'DINT', 200, None), ('B', 'INT', 10, '0x93/1/2'), ('S', 'SSTRING', 3, None), ('R', 'REAL', 1, None)]


def shards(tier):
    return 2 if tier == 'quick' else 8


def cm_steps(rng, which):
    """Connection Manager services: a Forward Open the simulator accepts, one it has to refuse (connection size 0, or the
    originator's O->T connection id of a non-point-to-point connection used twice), Forward Close -- supported services all,
    so even a refusal is a reply with the reply bit set"""
    from vlib import refcodec as rc
    serial = rng.randrange(65536)

    def fo(size=500, ot_type=2, ot_id=0, large=False, serial=serial):
        return rc.enc_request({'path': {'segment': [{'class': 6}, {'instance': 1}]},
                               'forward_open': {'priority_time_tick': 10, 'timeout_ticks': 5,
                                                'O_T': {'size': size, 'type': ot_type, 'priority': 0, 'variable': 1, 'redundant': 0, 'RPI': 2000000, 'connection_ID': ot_id, 'large': large},
                                                'T_O': {'size': size, 'type': 2, 'priority': 0, 'variable': 1, 'redundant': 0, 'RPI': 2000000, 'connection_ID': rng.randrange(1, 2**32), 'large': large},
                                                'connection_serial': serial, 'O_vendor': 0x4321, 'O_serial': 77, 'connection_timeout_multiplier': 0,
                                                'transport_class_triggers': 0xA3, 'connection_path': {'segment': [{'port': 1, 'link': 0}, {'class': 2}, {'instance': 1}]}}})
    if which == 'open':
        cips = [(fo(), 0xD4)]
    elif which == 'open-size0':
        cips = [(fo(size=0), 0xD4)]
    elif which == 'open-twice':
        cips = [(fo(ot_type=1, ot_id=0x55), 0xD4), (fo(ot_type=1, ot_id=0x55, serial=(serial + 1) % 65536), 0xD4)]
    else:
        cips = [(rc.enc_request({'path': {'segment': [{'class': 6}, {'instance': 1}]},
                                 'forward_close': {'priority_time_tick': 10, 'timeout_ticks': 5, 'connection_serial': serial, 'O_vendor': 0x4321, 'O_serial': 77,
                                                   'connection_path': {'segment': [{'port': 1, 'link': 0}, {'class': 2}, {'instance': 1}]}}}), 0xCE)]
    return [('connection-manager', (lambda s, c, cip=cip: rc.rr_frame(cip, s, c)), {'command': 0x6F, 'service': rsvc}) for cip, rsvc in cips]


def gen_session(rng, depth_target, heavy=False):
    """-> list of (kind, frame_builder(session, ctx) -> bytes, expect dict)"""
    from vlib import refcodec as rc, reqgen
    steps = []
    n = depth_target
    for _ in range(n):
        r = rng.random()
        if heavy and r < 0.9:
            # replies of ~5 kB each: a few hundred of them cannot sit in socket buffers, the server must block in send
            members = [{'path': {'segment': [{'symbolic': 'A'}, {'element': rng.randrange(0, 80)}]}, 'read_tag': {'elements': 110}} for _ in range(3)]
            cip = rc.enc_request({'path': {'segment': [{'class': 2}, {'instance': 1}]}, 'multiple': {'request': members}})
            steps.append(('bundle', (lambda s, c, cip=cip: rc.rr_frame(rc.enc_unconnected_send(cip), s, c)), {'command': 0x6F, 'service': 0x8A}))
            continue
        if r < 0.06:
            h = rng.choice([None, None, 0, rng.randrange(1, 2**32)])       # these commands need no session: the reply must echo whatever handle the request carried
            steps.append(('list_services', (lambda s, c, h=h: rc.enc_frame(0x04, b'', session=(s if h is None else h), context=c)), {'command': 0x04, 'handle': h}))
        elif r < 0.12:
            h = rng.choice([None, None, 0, rng.randrange(1, 2**32)])       # these commands need no session: the reply must echo whatever handle the request carried
            steps.append(('list_identity', (lambda s, c, h=h: rc.enc_frame(0x63, b'', session=(s if h is None else h), context=c)), {'command': 0x63, 'handle': h}))
        elif r < 0.16:
            h = rng.choice([None, None, 0, rng.randrange(1, 2**32)])       # these commands need no session: the reply must echo whatever handle the request carried
            steps.append(('list_interfaces', (lambda s, c, h=h: rc.enc_frame(0x64, b'', session=(s if h is None else h), context=c)), {'command': 0x64, 'handle': h}))
        elif r < 0.2:
            h = rng.choice([None, None, 0, rng.randrange(1, 2**32)])       # these commands need no session: the reply must echo whatever handle the request carried
            steps.append(('legacy', (lambda s, c, h=h: rc.enc_frame(0x01, b'', session=(s if h is None else h), context=c)), {'command': 0x01, 'handle': h}))
        elif r < 0.26 and depth_target < 64:
            steps.extend(cm_steps(rng, rng.choice(['open', 'open-size0', 'open-twice', 'close'])))
        elif r < 0.32:
            k = rng.choice([1, 2, 5, 20])
            members = [reqgen.gen_request(rng, CFG, p_invalid=0.3, allow_unknown=False)[1] for _ in range(k)]
            req = {'path': {'segment': [{'class': 2}, {'instance': 1}]}, 'multiple': {'request': members}}
            cip = rc.enc_request(req)
            steps.append(('bundle', (lambda s, c, cip=cip: rc.rr_frame(rc.enc_unconnected_send(cip), s, c)), {'command': 0x6F, 'service': 0x8A}))
        else:
            label, req = reqgen.gen_request(rng, CFG, p_invalid=0.3, allow_unknown=False)
            if label == 'read' and rng.random() < 0.5:
                req = {'path': {'segment': [{'symbolic': 'A'}]}, 'read_tag': {'elements': 110}}      # large replies fill the socket buffers
            cip = rc.enc_request(req)
            kind = {'read': 'read', 'write': 'write', 'attr': 'attribute'}.get(label, 'cip-failing')
            wrap = not ('read_frag' not in req and rng.random() < 0.3)
            build = (lambda s, c, cip=cip, wrap=wrap: rc.rr_frame(rc.enc_unconnected_send(cip) if wrap else cip, s, c))
            steps.append((kind, build, {'command': 0x6F, 'service': cip[0] | 0x80}))
    gen_session.counter = getattr(gen_session, 'counter', 0) + 1
    if depth_target < 64:
        # every kind of Connection Manager exchange occurs, deterministically
        extra = cm_steps(rng, ['open', 'open-size0', 'open-twice', 'close'][gen_session.counter % 4])
        at = rng.randrange(len(steps) + 1)
        steps[at:at] = extra
    end = ['none', 'unsupported-service', 'unregister', 'unroutable', 'none'][gen_session.counter % 5]     # every ending occurs, deterministically
    if depth_target < 64 and gen_session.counter % 2 == 0:
        end = 'none'            # ... and 'none' also occurs at the small depths (these sessions are half-closed right after the burst)
    if end == 'unregister':
        steps.append(('end:unregister', lambda s, c: rc.enc_frame(0x66, b'', session=s, context=c), {'no_reply': True}))
    elif end == 'unsupported-service':
        cip = bytes([rng.choice([0x4B, 0x7E, 0x33])]) + rc.enc_epath([{'symbolic': 'A'}]) + b'\x01\x00'
        steps.append(('end:unsupported-service', lambda s, c, cip=cip: rc.rr_frame(rc.enc_unconnected_send(cip), s, c), {'command': 0x6F, 'enip_error': True}))
    elif end == 'unroutable':
        req = {'path': {'segment': [{'symbolic': 'NoSuchTag'}] if rng.random() < 0.5 else [{'class': 0x77}, {'instance': 9}, {'attribute': 1}]}, 'read_tag': {'elements': 1}}
        cip = rc.enc_request(req)
        steps.append(('end:unroutable', lambda s, c, cip=cip: rc.rr_frame(rc.enc_unconnected_send(cip), s, c), {'command': 0x6F, 'enip_error': True}))
    if end in ('unroutable', 'unsupported-service') and (gen_session.counter // 5) % 2 == 0:
        # the refused request is not the last one of the burst: more requests are already in flight behind it.  The refusal ends the
        # session, so nothing is owed for those -- but every request in front of it, and the refused one itself, still is
        for _ in range(rng.choice([1, 2, 5])):
            cip = rc.enc_request({'path': {'segment': [{'symbolic': 'A'}]}, 'read_tag': {'elements': 1}})
            steps.append(('behind-the-refused-one', lambda s, c, cip=cip: rc.rr_frame(rc.enc_unconnected_send(cip), s, c), {'command': 0x6F, 'optional': True}))
    return steps


def context_for(rng, k, special):
    if special == 'zero':
        return b'\x00' * 8
    if special == 'ff':
        return b'\xff' * 8
    if special == 'nul':
        return struct.pack('<I', k) + b'\x00A\x00B'
    return struct.pack('<I', k) + bytes(rng.randrange(256) for _ in range(4))


def run_session(ctx, sim, rng, depth):
    from vlib import refcodec as rc
    heavy = depth >= 400
    steps = gen_session(rng, depth, heavy=heavy)
    sock = socket.socket(socket.AF_INET, socket.SOCK_STREAM)
    sock.setsockopt(socket.SOL_SOCKET, socket.SO_RCVBUF, 4096)
    sock.settimeout(20)
    sock.connect(sim.address)
    wit = {'depth': depth, 'kinds': [s[0] for s in steps]}
    try:
        # Register first (its handle is needed to build the rest)
        reg_ctx = b'REG' + bytes(rng.randrange(256) for _ in range(5))
        sock.sendall(rc.register_frame(reg_ctx))
        buf = b''
        while True:
            frames, rest = rc.split_frames(buf)
            if frames:
                break
            chunk = sock.recv(4096)
            if not chunk:
                ctx.violation('register-not-answered', 'connection closed before the Register Session reply', wit)
                return
            buf += chunk
        h = rc.dec_frame(frames[0])
        buf = buf[len(frames[0]):]
        ctx.count('kind:register')
        if h['command'] != 0x65 or h['status'] != 0 or h['session_handle'] == 0 or h['sender_context'] != reg_ctx:
            ctx.violation('register-reply-wrong', 'Register reply: command 0x%x status %d handle %d context %r' % (h['command'], h['status'], h['session_handle'], h['sender_context']), wit)
            return
        session = h['session_handle']
        specials = ['zero', 'ff', 'nul'] if len(steps) >= 3 and rng.random() < 0.6 else []
        sent = []
        for k, (kind, build, expect) in enumerate(steps):
            sp = specials.pop() if specials and rng.random() < 0.3 else None
            c = context_for(rng, k, sp)
            if sp == 'zero':
                ctx.count('context:all-zero')
            if sp == 'nul':
                ctx.count('context:embedded-nul')
            sent.append((kind, build(session, c), c, expect))
        stream = b''.join(f for _, f, _, _ in sent)
        blocked = {'n': 0}

        half_close = depth < 64 and not any(k_.startswith('end:') for k_, _, _, _ in sent)

        def writer():
            try:
                sock.sendall(stream)
                if half_close:
                    # the documented clean shutdown of a client: close the sending side right after the last request, then harvest the
                    # replies; the end-of-stream may reach the server together with the burst, and every complete request is still owed
                    # its reply
                    sock.shutdown(socket.SHUT_WR)
            except OSError:
                pass
        th = threading.Thread(target=writer, daemon=True)
        th.start()
        th.join(timeout=1.5 if depth >= 64 else 20)
        if depth >= 64:
            # is the server stuck in send()?  its own per-connection statistics stop advancing before all requests are processed
            import time
            me = sock.getsockname()
            key = '%s_%d' % (me[0].replace('.', '_'), me[1])
            def processed():
                st = dict.get(sim.enip_main.connections, key)
                return dict.get(st, 'requests') if st is not None else None
            a, b = processed(), None
            for _ in range(25):             # wait until the server's progress stops (or it has processed everything)
                time.sleep(0.3)
                b = processed()
                if b == a or (b is not None and b >= len(sent) + 1):
                    break
                a = b
            if a is not None and a == b and a < len(sent) + 1:
                blocked['n'] = 1
                ctx.count('server-blocked-in-send')
        if th.is_alive():
            ctx.count('writer-blocked-too')
        if half_close:
            ctx.count('session:half-closed-after-burst')
        # now read everything
        got = []
        owed = sum(1 for _, _, _, e in sent if not e.get('no_reply') and not e.get('optional'))
        ends = any(e.get('no_reply') or e.get('enip_error') for _, _, _, e in sent)       # the server ends such a session itself
        sock.settimeout(15)
        closed = False
        while ends or len(got) < owed + 1:
            frames, rest = rc.split_frames(buf)
            if frames:
                for f in frames:
                    got.append(f)
                buf = rest
                if len(got) >= owed and not ends:
                    break
                continue
            try:
                chunk = sock.recv(65536)
            except socket.timeout:
                break
            except OSError:
                closed = True
                break
            if not chunk:
                closed = True
                break
            buf += chunk
        th.join(5)
        ctx.count('sessions')
        ctx.count('depth:%d' % depth)
        wit['replies'] = len(got)
        wit['leftover_bytes'] = len(buf)
        # ---- offline check
        if buf:
            ctx.violation('partial-reply-frame', '%d trailing bytes that do not form a frame' % len(buf), wit)
            return
        gi = 0
        for k, (kind, frame, c, expect) in enumerate(sent):
            if expect.get('optional'):
                ctx.count('session:requests-behind-the-refused-one')
                gi = len(got)           # whatever came for these is not judged
                break
            ctx.count('requests')
            ctx.count('kind:' + kind if not kind.startswith('end:') else kind)
            if expect.get('no_reply'):
                if gi < len(got):
                    ctx.violation('unregister-answered', 'Unregister Session was answered with %d frame(s)' % (len(got) - gi), wit)
                    return
                if not closed:
                    ctx.violation('unregister-does-not-end-session', 'connection still open after Unregister Session', wit)
                    return
                continue
            if gi >= len(got):
                ctx.violation('reply-missing', 'request %d (%s) of %d got no reply (%d replies in total)' % (k, kind, len(sent), len(got)), wit)
                return
            r = rc.dec_frame(got[gi])
            gi += 1
            ctx.count('monitor:paired')
            ctx.case((tuple(wit['kinds']), k, depth), nontrivial=depth >= 2)
            if r['sender_context'] != c:
                other = [j for j, s in enumerate(sent) if s[2] == r['sender_context']]
                key = 'replies-out-of-order-or-duplicated' if other else 'reply-with-foreign-context'
                ctx.violation(key, 'reply %d carries context %r (request %s), expected %r of request %d (%s)' % (gi - 1, r['sender_context'], other, c, k, kind), wit)
                return
            if r['command'] != expect['command']:
                ctx.violation('reply-command-differs', 'request %d (%s): reply command 0x%04x' % (k, kind, r['command']), wit)
                return
            want_handle = session if expect.get('handle') is None else expect['handle']
            if expect.get('handle') is not None:
                ctx.count('handle:other-than-registered')
            if r['session_handle'] != want_handle:
                ctx.violation('reply-session-handle-differs', 'request %d (%s) carried handle %d on a session registered as %d: reply handle %d' % (k, kind, want_handle, session, r['session_handle']), wit)
                return
            if expect.get('enip_error'):
                if r['status'] == 0:
                    ctx.violation('unsupported-request-not-refused', 'request %d (%s) answered with encapsulation status 0' % (k, kind), wit)
                    return
                continue
            if r['status'] != 0:
                ctx.violation('supported-request-gets-encapsulation-error', 'request %d (%s): encapsulation status 0x%x' % (k, kind, r['status']), wit)
                return
            if 'service' in expect:
                items = r.get('items') or []
                if len(items) != 2 or items[0] != (0, b'') or items[1][0] != 0xB2:
                    ctx.violation('reply-cpf-shape', 'request %d (%s): CPF items %r' % (k, kind, [(t, len(p)) for t, p in items]), wit)
                    return
                if not r['cip'] or r['cip'][0] != expect['service']:
                    ctx.violation('reply-service-code', 'request %d (%s): reply service 0x%02x, expected 0x%02x' % (k, kind, r['cip'][0] if r['cip'] else -1, expect['service']), wit)
                    return
        if gi < len(got):
            ctx.violation('extra-reply-frames', '%d reply frame(s) beyond the %d owed' % (len(got) - gi, gi), wit)
            return
        if ctx.want_sample() and depth in (2, 8):
            ctx.sample({'depth': depth, 'kinds': wit['kinds'], 'replies': len(got), 'server_blocked_in_send': bool(blocked['n'])})
    finally:
        sock.close()


class _Target:
    """a second simulator in its own process (the CIP objects of a simulator are process-wide), reached through a relay"""

    def __init__(self):
        import json, os, subprocess, sys
        here = os.path.dirname(os.path.dirname(os.path.abspath(__file__)))
        cmd = [sys.executable, '-m', 'vlib.srvproc', '--switch', '0.005', '--', 'RT=DINT[8]', 'RS=INT[4]']
        self.p = subprocess.Popen(cmd, cwd=here, stdin=subprocess.PIPE, stdout=subprocess.PIPE, stderr=subprocess.DEVNULL, env=dict(os.environ))
        line = self.p.stdout.readline().decode()
        if not line.startswith('ADDRESS'):
            raise RuntimeError('target simulator did not start: %r' % line)
        _, host, port = line.split()
        self.address = (host, int(port))

    def stop(self):
        try:
            self.p.stdin.close()
            self.p.wait(10)
        except Exception:
            self.p.kill()


def routed(ctx, rng):
    """Requests that the simulator forwards to another device over a configured route (UCMM route table): every reply still answers
    its own request -- the request's sender context, its service code with the reply bit, its data -- also after one forwarded
    request has timed out against a slow target (the request carries its own timeout) and on other sessions."""
    from vlib import simdrv, reqgen, relay as relaymod, refcodec as rc
    from cpppo.server.enip import ucmm
    target = _Target()
    rl = relaymod.Relay(target.address)
    sim = None
    try:
        ucls = type('UCMM', (ucmm.UCMM,), {'route': {'1/1': '%s:%d' % rl.address}})
        sim = simdrv.TcpSim(reqgen.argv_of(CFG), extra_kwds={'UCMM_class': ucls})
        ROUTE = [{'port': 1, 'link': 1}]
        state = {'RT': [0] * 8, 'RS': [0] * 4}
        counter = [0]

        def a_request():
            counter[0] += 1
            k = counter[0]
            r = rng.random()
            if r < 0.3:
                i, n = rng.randrange(0, 6), rng.choice([1, 2])
                vals = [k * 10 + j for j in range(n)]
                return {'path': {'segment': [{'symbolic': 'RT'}, {'element': i}]}, 'write_tag': {'type': 0xC4, 'elements': n, 'data': vals}}, ('w', 'RT', i, vals)
            if r < 0.55:
                return {'path': {'segment': [{'symbolic': 'RT'}]}, 'read_tag': {'elements': 8}}, ('r', 'RT', 0, 8)
            if r < 0.8:
                # (no Read Tag Fragmented here: forwarded over the last hop the request travels without the 0x52 wrapper, and a bare 0x52
                # is read as the wrapper by design -- the assumption C04 records)
                return {'path': {'segment': [{'symbolic': 'RS'}, {'element': 1}]}, 'read_tag': {'elements': 3}}, ('r', 'RS', 1, 3)
            i = rng.randrange(0, 3)
            vals = [k % 3000]
            return {'path': {'segment': [{'symbolic': 'RS'}, {'element': i}]}, 'write_frag': {'type': 0xC3, 'elements': 1, 'offset': 0, 'data': vals}}, ('w', 'RS', i, vals)

        def exchange(cli, req, what, wit, priority=10, ticks=20):
            """-> True if judged fine, False after a violation, None if the session was ended by the simulator"""
            cip = rc.enc_request(req)
            c = struct.pack('<I', counter[0]) + bytes(rng.randrange(256) for _ in range(4))
            cli.send(rc.rr_frame(rc.enc_unconnected_send(cip, route_path=ROUTE, priority=priority, timeout_ticks=ticks), cli.session, c))
            fr = cli.recv_frame(30.0)
            ctx.count('routed:requests')
            ctx.case(('routed', counter[0], cip), nontrivial=True)
            if fr is None:
                ctx.violation('reply-missing', 'forwarded request %r got no reply' % (what,), wit)
                return False
            r = rc.dec_frame(fr)
            if r['sender_context'] != c or r['session_handle'] != cli.session or r['command'] != 0x6F:
                ctx.violation('reply-with-foreign-context', 'forwarded request %r: reply command 0x%x context %r handle %r' % (what, r['command'], r['sender_context'], r['session_handle']), wit)
                return False
            if r['status'] != 0:
                return None
            if not r['cip'] or r['cip'][0] != cip[0] | 0x80:
                ctx.violation('reply-service-code', 'forwarded request %r (service 0x%02x) answered with service 0x%02x: the reply to another request' % (
                    what, cip[0], r['cip'][0] if r['cip'] else -1), wit)
                return False
            rep = rc.dec_reply(r['cip'])
            if rep['status'] != 0:
                ctx.violation('forwarded-request-fails', 'forwarded request %r: CIP status 0x%02x' % (what, rep['status']), wit)
                return False
            if what[0] == 'w':
                state[what[1]][what[2]:what[2] + len(what[3])] = what[3]
            else:
                k_ = 'read_tag' if 'read_tag' in rep else 'read_frag'
                want = state[what[1]][what[2]:what[2] + what[3]]
                if list(rep[k_]['data']) != want:
                    ctx.violation('forwarded-reply-carries-other-data', 'forwarded read %r returned %r, the target holds %r' % (what, list(rep[k_]['data']), want), wit)
                    return False
            ctx.count('monitor:routed-reply-answers-its-request')
            return True

        wit = {'routed': True}
        a = simdrv.RawClient(sim.address)
        try:
            a.register()
        except RuntimeError as exc:
            ctx.violation('register-not-answered', 'simulator with a route table: %r' % (exc,), wit)
            return
        for _ in range(rng.choice([2, 4])):
            req, what = a_request()
            ok = exchange(a, req, what, wit)
            if ok is None:
                ctx.violation('supported-request-gets-encapsulation-error', 'forwarded request %r refused (no fault injected)' % (what,), dict(wit, request=req))
            if ok is not True:
                return
        # a slow target: its reply to the next forwarded request is kept back beyond the request's own timeout (2**5 * 4 = 128 ms)
        rl.hold_s2c = True
        req, what = {'path': {'segment': [{'symbolic': 'RT'}, {'element': 7}]}, 'write_tag': {'type': 0xC4, 'elements': 1, 'data': [4242]}}, ('w', 'RT', 7, [4242])
        counter[0] += 1
        cip = rc.enc_request(req)
        c = b'SLOWSLOW'
        a.send(rc.rr_frame(rc.enc_unconnected_send(cip, route_path=ROUTE, priority=5, timeout_ticks=4), a.session, c))
        fr = a.recv_frame(30.0)
        ctx.count('routed:timed-out-request')
        if fr is None:
            ctx.violation('reply-missing', 'a forwarded request whose target does not answer within its timeout got no reply frame at all', wit)
            return
        r = rc.dec_frame(fr)
        if r['sender_context'] != c:
            ctx.violation('reply-with-foreign-context', 'timed-out forwarded request: reply context %r' % r['sender_context'], wit)
            return
        if r['status'] == 0:
            ctx.violation('unsupported-request-not-refused', 'a forwarded request whose target did not answer was answered with encapsulation status 0', wit)
            return
        state['RT'][7] = 4242           # the target did receive and execute it; only its reply was late
        rl.hold_s2c = False             # ... and now the late reply is on its way
        time.sleep(0.3)
        a.close()
        # later forwarded requests, on new sessions and interleaved between two of them
        b, c2 = simdrv.RawClient(sim.address), simdrv.RawClient(sim.address)
        try:
            b.register()
            c2.register()
        except RuntimeError as exc:
            ctx.violation('register-not-answered', 'new session after a forwarded request had timed out: %r' % (exc,), wit)
            return
        for j in range(rng.choice([4, 6])):
            req, what = a_request()
            if j == 0:          # the first one differs in kind from the request that timed out
                counter[0] += 1
                req, what = {'path': {'segment': [{'symbolic': 'RT'}]}, 'read_tag': {'elements': 8}}, ('r', 'RT', 0, 8)
            if exchange(b if j % 2 == 0 else c2, req, what, wit) is not True:
                if not ctx.violations:
                    ctx.violation('supported-request-gets-encapsulation-error', 'forwarded request %r refused after an earlier forwarded request had timed out' % (what,), wit)
                return
        ctx.count('routed:histories')
        b.close()
        c2.close()
    finally:
        if sim is not None:
            sim.stop()
        rl.close()
        target.stop()


def run(ctx):
    from vlib import simdrv, reqgen
    rng = ctx.rng
    # environment, not code: give the server's accepted sockets a small kernel send buffer, so that a client which
    # does not read makes the server block in send() after a few replies (as a slow network would)
    orig_accept = socket.socket.accept

    def small_buffer_accept(self):
        conn, addr = orig_accept(self)
        try:
            conn.setsockopt(socket.SOL_SOCKET, socket.SO_SNDBUF, 4096)
        except OSError:
            pass
        return conn, addr
    socket.socket.accept = small_buffer_accept
    for _ in range(1 if ctx.tier == 'quick' else 6):
        routed(ctx, rng)                # first: bounded; the sessions below run until the soft budget is used up
    sim = simdrv.TcpSim(reqgen.argv_of(CFG))
    try:
        depths = [1, 2, 8, 64, 400]
        i = 0
        while not ctx.expired():
            d = depths[i % len(depths)]
            i += 1
            if ctx.tier == 'quick' and i > 7:
                break
            run_session(ctx, sim, rng, d)
    finally:
        sim.stop()
        socket.socket.accept = orig_accept


def replay(ctx, witness):
    ctx.inconclusive_because('re-run by seed (sessions are regenerated from the seed)')

"""Independent EtherNet/IP + CIP reference encoder and decoder.

Written from the protocol layout tables (CIP Vol 1 ch. 3 / App. C, Vol 2 ch. 2, Logix Data Access
manual 1756-PM020), using only struct.  Shares no code with cpppo.  Field dictionaries use plain
dict/list in the same *shape* cpppo's parsers produce, so that one field assignment can be handed
to both encoders and the parsed results compared key by key.
"""
from __future__ import annotations
import struct, ipaddress

# ---------------------------------------------------------------- elementary types
TYPES = {          # name: (tag type code, struct format)
    'BOOL': (0xC1, 'B'), 'SINT': (0xC2, 'b'), 'INT': (0xC3, '<h'), 'DINT': (0xC4, '<i'), 'LINT': (0xC5, '<q'),
    'USINT': (0xC6, 'B'), 'UINT': (0xC7, '<H'), 'UDINT': (0xC8, '<I'), 'ULINT': (0xC9, '<Q'),
    'REAL': (0xCA, '<f'), 'LREAL': (0xCB, '<d'), 'WORD': (0xD2, '<H'), 'DWORD': (0xD3, '<I'),
}
STRING_T, SSTRING_T, STRUCT_T = 0xD0, 0xDA, 0x02A0
CODE2NAME = {v[0]: k for k, v in TYPES.items()}
CODE2NAME[STRING_T] = 'STRING'
CODE2NAME[SSTRING_T] = 'SSTRING'
NAME2CODE = {v: k for k, v in CODE2NAME.items()}


def size_of(tname):
    return struct.calcsize(TYPES[tname][1])


def enc_scalar(tname, v):
    if tname == 'BOOL':
        return b'\xff' if v else b'\x00'            # Logix data access: true is 0xFF
    if tname == 'SSTRING':
        return enc_sstring(v)
    if tname == 'STRING':
        return enc_string(v)
    return struct.pack(TYPES[tname][1], v)


def dec_scalar(tname, b, off=0):
    """-> (value, new offset)"""
    if tname == 'BOOL':
        return bool(b[off]), off + 1
    if tname == 'SSTRING':
        n = b[off]
        s = b[off + 1:off + 1 + n]
        if len(s) != n:
            raise ValueError('short SSTRING')
        return s.decode('iso-8859-1'), off + 1 + n
    if tname == 'STRING':
        n, = struct.unpack_from('<H', b, off)
        s = b[off + 2:off + 2 + n]
        if len(s) != n:
            raise ValueError('short STRING')
        return s.decode('iso-8859-1'), off + 2 + n + (n % 2)
    fmt = TYPES[tname][1]
    v, = struct.unpack_from(fmt, b, off)
    return v, off + struct.calcsize(fmt)


def enc_sstring(s):
    e = s.encode('iso-8859-1')
    assert len(e) < 256
    return bytes([len(e)]) + e


def enc_string(s):
    e = s.encode('iso-8859-1')
    assert len(e) < 65536
    return struct.pack('<H', len(e)) + e + (b'\x00' if len(e) % 2 else b'')


def enc_typed(tcode, values):
    t = CODE2NAME[tcode]
    return b''.join(enc_scalar(t, v) for v in values)


def dec_typed(tcode, b):
    t = CODE2NAME[tcode]
    out, off = [], 0
    while off < len(b):
        v, off = dec_scalar(t, b, off)
        out.append(v)
    if off != len(b):
        raise ValueError('typed data does not end on an element boundary')
    return out


def enc_ipaddr(v, network=False):
    if isinstance(v, str):
        v = int(ipaddress.ip_address(v))
    return struct.pack('>I' if network else '<I', v)


def enc_ifaceaddrs(d):
    out = b''
    for k in ('ip_address', 'network_mask', 'gateway_address', 'dns_primary', 'dns_secondary'):
        out += enc_ipaddr(d.get(k, 0))
    return out + enc_string(d.get('domain_name', ''))


# ---------------------------------------------------------------- EPATH
LOGICAL = {'class': 0x20, 'instance': 0x24, 'element': 0x28, 'connection': 0x2C, 'attribute': 0x30}


def enc_segment(seg):
    if 'symbolic' in seg:
        e = seg['symbolic'].encode('iso-8859-1')
        assert 0 < len(e) < 256
        return b'\x91' + bytes([len(e)]) + e + (b'\x00' if len(e) % 2 else b'')
    if 'port' in seg:
        port, link = seg['port'], seg['link']
        assert 0 < port <= 0xFFFF
        first = port if port < 15 else 15
        ext = b'' if port < 15 else struct.pack('<H', port)
        if isinstance(link, int):
            return bytes([first]) + ext + bytes([link])
        e = link.encode('iso-8859-1')
        return bytes([first | 0x10, len(e)]) + ext + e + (b'\x00' if len(e) % 2 else b'')
    for name, code in LOGICAL.items():
        if name in seg:
            v = seg[name]
            if v <= 0xFF:
                return bytes([code, v])
            if v <= 0xFFFF:
                return bytes([code + 1, 0]) + struct.pack('<H', v)
            assert name == 'element' and v <= 0xFFFFFFFF
            return bytes([code + 2, 0]) + struct.pack('<I', v)
    raise ValueError('unknown segment %r' % (seg,))


def enc_epath(segments, padded=False, single=False):
    body = b''.join(enc_segment(s) for s in segments)
    assert len(body) % 2 == 0
    if single:
        return body
    return bytes([len(body) // 2]) + (b'\x00' if padded else b'') + body


def dec_segments(b):
    segs, off = [], 0
    while off < len(b):
        t = b[off]
        if t == 0x91:
            n = b[off + 1]
            name = b[off + 2:off + 2 + n]
            if len(name) != n:
                raise ValueError('short symbolic segment')
            segs.append({'symbolic': name.decode('iso-8859-1')})
            off += 2 + n + (n % 2)
        elif t & 0xE0 == 0x00:          # port segment
            port = t & 0x0F
            has_str = bool(t & 0x10)
            off += 1
            n = None
            if has_str:
                n = b[off]
                off += 1
            if port == 15:
                port, = struct.unpack_from('<H', b, off)
                off += 2
            if has_str:
                link = b[off:off + n]
                if len(link) != n:
                    raise ValueError('short link address')
                segs.append({'port': port, 'link': link.decode('iso-8859-1')})
                off += n + (n % 2)
            else:
                segs.append({'port': port, 'link': b[off]})
                off += 1
        else:
            base, fmt = t & 0xFC, t & 0x03
            name = {v: k for k, v in LOGICAL.items()}.get(base)
            if name is None:
                raise ValueError('unknown segment type 0x%02x' % t)
            if fmt == 0:
                segs.append({name: b[off + 1]})
                off += 2
            elif fmt == 1:
                segs.append({name: struct.unpack_from('<H', b, off + 2)[0]})
                off += 4
            elif fmt == 2:
                segs.append({name: struct.unpack_from('<I', b, off + 2)[0]})
                off += 6
            else:
                raise ValueError('reserved logical format')
    if off != len(b):
        raise ValueError('EPATH overruns its size')
    return segs


def dec_epath(b, off=0, padded=False):
    """-> (segments, new offset)"""
    words = b[off]
    off += 2 if padded else 1
    body = b[off:off + 2 * words]
    if len(body) != 2 * words:
        raise ValueError('short EPATH')
    return dec_segments(body), off + 2 * words


# ---------------------------------------------------------------- status
def enc_status(status=0, ext=()):
    ext = list(ext) if status else []
    return bytes([status, len(ext)]) + b''.join(struct.pack('<H', x) for x in ext)


def dec_status(b, off):
    st, n = b[off], b[off + 1]
    ext = list(struct.unpack_from('<%dH' % n, b, off + 2))
    return st, ext, off + 2 + 2 * n


def _status_of(d):
    ext = ()
    se = d.get('status_ext')
    if se:
        ext = se.get('data', ())
    return d.get('status', 0), ext


# ---------------------------------------------------------------- CIP services
RD_TAG, WR_TAG, RD_FRG, WR_FRG, MULTI = 0x4C, 0x4D, 0x52, 0x53, 0x0A
GA_ALL, GA_LST, GA_SNG, SA_SNG = 0x01, 0x03, 0x0E, 0x10
FWD_OPEN, FWD_OPEN_LARGE, FWD_CLOSE = 0x54, 0x5B, 0x4E


def ncp(p, large):
    """Network connection parameters word from its bit fields (Vol 1 table 3-5.9)."""
    word = (p.get('redundant', 0) << 15) | (p.get('type', 2) << 13) | (p.get('priority', 0) << 10) | (p.get('variable', 1) << 9)
    if large:
        return (word << 16) | (p['size'] & 0xFFFF)
    return word | (p['size'] & 0x1FF)


def enc_request(d):
    """CIP request from a field dict (same shape cpppo uses)."""
    path = enc_epath(d['path']['segment']) if 'path' in d else None
    if 'read_tag' in d:
        return bytes([RD_TAG]) + path + struct.pack('<H', d['read_tag']['elements'])
    if 'read_frag' in d:
        return bytes([RD_FRG]) + path + struct.pack('<HI', d['read_frag']['elements'], d['read_frag']['offset'])
    if 'write_tag' in d:
        w = d['write_tag']
        return bytes([WR_TAG]) + path + struct.pack('<HH', w['type'], w.get('elements', len(w['data']))) + enc_typed(w['type'], w['data'])
    if 'write_frag' in d:
        w = d['write_frag']
        return bytes([WR_FRG]) + path + struct.pack('<HHI', w['type'], w['elements'], w.get('offset', 0)) + enc_typed(w['type'], w['data'])
    if 'get_attributes_all' in d:
        return bytes([GA_ALL]) + path
    if 'get_attribute_single' in d:
        return bytes([GA_SNG]) + path
    if 'get_attribute_list' in d:
        lst = d['get_attribute_list']
        return bytes([GA_LST]) + path + struct.pack('<H', len(lst)) + b''.join(struct.pack('<H', a) for a in lst)
    if 'set_attribute_single' in d:
        return bytes([SA_SNG]) + path + bytes(d['set_attribute_single']['data'])
    if 'multiple' in d:
        reqs = [enc_request(r) for r in d['multiple']['request']]
        mp = enc_epath(d['path']['segment']) if 'path' in d else enc_epath([{'class': 2}, {'instance': 1}])
        n = len(reqs)
        offs, pos = [], 2 + 2 * n
        for r in reqs:
            offs.append(pos)
            pos += len(r)
        return bytes([MULTI]) + mp + struct.pack('<H', n) + b''.join(struct.pack('<H', o) for o in offs) + b''.join(reqs)
    if 'forward_open' in d:
        fo = d['forward_open']
        large = d.get('service') == FWD_OPEN_LARGE or fo['O_T']['size'] > 0x1FF or fo['T_O']['size'] > 0x1FF
        w = '<I' if large else '<H'
        out = bytes([FWD_OPEN_LARGE if large else FWD_OPEN]) + path
        out += bytes([fo['priority_time_tick'], fo['timeout_ticks']])
        out += struct.pack('<IIHHI', fo['O_T']['connection_ID'], fo['T_O']['connection_ID'], fo['connection_serial'], fo['O_vendor'], fo['O_serial'])
        out += bytes([fo['connection_timeout_multiplier']]) + b'\x00\x00\x00'
        out += struct.pack('<I', fo['O_T']['RPI']) + struct.pack(w, ncp(fo['O_T'], large))
        out += struct.pack('<I', fo['T_O']['RPI']) + struct.pack(w, ncp(fo['T_O'], large))
        out += bytes([fo['transport_class_triggers']]) + enc_epath(fo['connection_path']['segment'])
        return out
    if 'forward_close' in d:
        fc = d['forward_close']
        out = bytes([FWD_CLOSE]) + path + bytes([fc['priority_time_tick'], fc['timeout_ticks']])
        out += struct.pack('<HHI', fc['connection_serial'], fc['O_vendor'], fc['O_serial'])
        return out + enc_epath(fc['connection_path']['segment'], padded=True)
    if 'service_code' in d:
        out = bytes([d['service']]) + path
        sc = d['service_code']
        if isinstance(sc, dict) and 'data' in sc:
            out += bytes(sc['data'])
        return out
    raise ValueError('unknown request %r' % (sorted(d),))


def enc_reply(d):
    """CIP reply from a field dict: service has the reply bit set."""
    svc = d['service']
    st, ext = _status_of(d)
    out = bytes([svc, 0]) + enc_status(st, ext)
    base = svc & 0x7F
    if base in (RD_TAG, RD_FRG):
        k = 'read_tag' if base == RD_TAG else 'read_frag'
        if st in (0x00, 0x06):
            out += struct.pack('<H', d[k]['type']) + enc_typed(d[k]['type'], d[k]['data'])
    elif base in (WR_TAG, WR_FRG, SA_SNG):
        pass
    elif base in (GA_ALL, GA_SNG, GA_LST):
        k = {GA_ALL: 'get_attributes_all', GA_SNG: 'get_attribute_single', GA_LST: 'get_attribute_list'}[base]
        if st == 0:
            out += bytes(d[k]['data'])
    elif base == MULTI:
        if st in (0x00, 0x1E):
            reps = [enc_reply(r) for r in d['multiple']['request']]
            n = len(reps)
            pos, offs = 2 + 2 * n, []
            for r in reps:
                offs.append(pos)
                pos += len(r)
            out += struct.pack('<H', n) + b''.join(struct.pack('<H', o) for o in offs) + b''.join(reps)
    elif base in (FWD_OPEN, FWD_OPEN_LARGE):
        fo = d['forward_open']
        if st == 0:
            out += struct.pack('<IIHHIII', fo['O_T']['connection_ID'], fo['T_O']['connection_ID'], fo['connection_serial'],
                               fo['O_vendor'], fo['O_serial'], fo['O_T']['API'], fo['T_O']['API'])
            app = bytes(fo.get('application', {}).get('data', ()))
            if len(app) % 2:
                app += b'\x00'
            out += bytes([len(app) // 2, 0]) + app
        else:
            out += struct.pack('<HHI', fo['connection_serial'], fo['O_vendor'], fo['O_serial'])
            if 'remaining_path_size' in fo:
                out += bytes([fo['remaining_path_size'], 0])
    elif base == FWD_CLOSE:
        fc = d.get('forward_close')
        if isinstance(fc, dict):
            out += struct.pack('<HHI', fc['connection_serial'], fc['O_vendor'], fc['O_serial'])
            app = bytes(fc.get('application', {}).get('data', ()))
            if len(app) % 2:
                app += b'\x00'
            out += bytes([len(app) // 2, 0]) + app
    else:
        sc = d.get('service_code')
        if st == 0 and isinstance(sc, dict) and 'data' in sc:
            out += bytes(sc['data'])
    return out


def dec_request(b):
    """CIP request bytes -> field dict (inverse of enc_request for the Logix dialect)."""
    svc = b[0]
    segs, off = dec_epath(b, 1)
    d = {'service': svc, 'path': {'segment': segs}}
    rest = b[off:]
    if svc == RD_TAG:
        d['read_tag'] = {'elements': struct.unpack('<H', rest)[0]}
    elif svc == RD_FRG:
        e, o = struct.unpack('<HI', rest)
        d['read_frag'] = {'elements': e, 'offset': o}
    elif svc == WR_TAG:
        t, e = struct.unpack_from('<HH', rest)
        d['write_tag'] = {'type': t, 'elements': e, 'data': dec_typed(t, rest[4:])}
    elif svc == WR_FRG:
        t, e, o = struct.unpack_from('<HHI', rest)
        d['write_frag'] = {'type': t, 'elements': e, 'offset': o, 'data': dec_typed(t, rest[8:])}
    elif svc == GA_ALL:
        d['get_attributes_all'] = True
    elif svc == GA_SNG:
        d['get_attribute_single'] = True
    elif svc == GA_LST:
        n, = struct.unpack_from('<H', rest)
        d['get_attribute_list'] = list(struct.unpack_from('<%dH' % n, rest, 2))
    elif svc == SA_SNG:
        d['set_attribute_single'] = {'data': list(rest)}
    elif svc == MULTI:
        n, = struct.unpack_from('<H', rest)
        offs = list(struct.unpack_from('<%dH' % n, rest, 2)) + [len(rest)]
        d['multiple'] = {'request': [dec_request(rest[offs[i]:offs[i + 1]]) for i in range(n)]}
    else:
        d['service_code'] = {'data': list(rest)} if rest else True
    return d


def dec_reply(b):
    """CIP reply bytes -> field dict {service,status,status_ext?, <service key>: ...}"""
    svc = b[0]
    if not svc & 0x80:
        raise ValueError('not a reply: service 0x%02x' % svc)
    st, ext, off = dec_status(b, 2)
    d = {'service': svc, 'status': st}
    if ext:
        d['status_ext'] = {'size': len(ext), 'data': ext}
    rest = b[off:]
    base = svc & 0x7F
    if base in (RD_TAG, RD_FRG):
        k = 'read_tag' if base == RD_TAG else 'read_frag'
        if st in (0x00, 0x06):
            t, = struct.unpack_from('<H', rest)
            d[k] = {'type': t, 'data': dec_typed(t, rest[2:])}
        elif rest:
            raise ValueError('data after failed read reply')
    elif base in (WR_TAG, WR_FRG, SA_SNG):
        if rest:
            raise ValueError('data after write reply')
    elif base in (GA_ALL, GA_SNG, GA_LST):
        k = {GA_ALL: 'get_attributes_all', GA_SNG: 'get_attribute_single', GA_LST: 'get_attribute_list'}[base]
        d[k] = {'data': list(rest)}
    elif base == MULTI:
        if st in (0x00, 0x1E):
            n, = struct.unpack_from('<H', rest)
            offs = list(struct.unpack_from('<%dH' % n, rest, 2))
            first = 2 + 2 * n
            if n and offs[0] != first:
                raise ValueError('first bundle offset %d != %d' % (offs[0], first))
            if any(a > b_ for a, b_ in zip(offs, offs[1:])) or (offs and offs[-1] > len(rest)):
                raise ValueError('bundle offsets not ascending / beyond data')
            offs.append(len(rest))
            d['multiple'] = {'offsets': offs[:-1], 'request': [dec_reply(rest[offs[i]:offs[i + 1]]) for i in range(n)]}
    elif base in (FWD_OPEN, FWD_OPEN_LARGE):
        fo = d['forward_open'] = {}
        if st == 0:
            (ot, to, cs, ov, os_, oapi, tapi) = struct.unpack_from('<IIHHIII', rest)
            fo.update({'O_T': {'connection_ID': ot, 'API': oapi}, 'T_O': {'connection_ID': to, 'API': tapi},
                       'connection_serial': cs, 'O_vendor': ov, 'O_serial': os_})
            words = rest[24]
            app = rest[26:26 + 2 * words]
            if len(app) != 2 * words or len(rest) != 26 + 2 * words:
                raise ValueError('forward open reply application data size')
            fo['application'] = {'size': words, 'data': list(app)}
        else:
            cs, ov, os_ = struct.unpack_from('<HHI', rest)
            fo.update({'connection_serial': cs, 'O_vendor': ov, 'O_serial': os_})
            if len(rest) > 8:
                fo['remaining_path_size'] = rest[8]
    elif base == FWD_CLOSE:
        if rest:
            cs, ov, os_ = struct.unpack_from('<HHI', rest)
            words = rest[8]
            d['forward_close'] = {'connection_serial': cs, 'O_vendor': ov, 'O_serial': os_,
                                  'application': {'size': words, 'data': list(rest[10:10 + 2 * words])}}
    else:
        if rest:
            d['service_code'] = {'data': list(rest)}
    return d


# ---------------------------------------------------------------- Unconnected Send, CPF, encapsulation
def enc_unconnected_send(request, route_path=None, send_path=None, priority=5, timeout_ticks=157):
    sp = enc_epath(send_path if send_path is not None else [{'class': 6}, {'instance': 1}])
    out = bytes([0x52]) + sp + bytes([priority, timeout_ticks]) + struct.pack('<H', len(request)) + request
    if len(request) % 2:
        out += b'\x00'
    return out + enc_epath(route_path if route_path is not None else [{'port': 1, 'link': 0}], padded=True)


def enc_cpf(items):
    """items: list of (type_id, payload bytes)"""
    out = struct.pack('<H', len(items))
    for tid, payload in items:
        out += struct.pack('<HH', tid, len(payload)) + payload
    return out


def dec_cpf(b, off=0):
    n, = struct.unpack_from('<H', b, off)
    off += 2
    items = []
    for _ in range(n):
        tid, ln = struct.unpack_from('<HH', b, off)
        payload = b[off + 4:off + 4 + ln]
        if len(payload) != ln:
            raise ValueError('CPF item overruns frame')
        items.append((tid, payload))
        off += 4 + ln
    return items, off


def enc_send_data(cpf_items, interface=0, timeout=5):
    return struct.pack('<IH', interface, timeout) + enc_cpf(cpf_items)


def enc_frame(command, payload=b'', session=0, status=0, context=b'\x00' * 8, options=0):
    assert len(context) == 8
    return struct.pack('<HHII8sI', command, len(payload), session, status, context, options) + payload


def dec_header(b, off=0):
    cmd, ln, sess, st, ctx, opt = struct.unpack_from('<HHII8sI', b, off)
    return {'command': cmd, 'length': ln, 'session_handle': sess, 'status': st, 'sender_context': ctx, 'options': opt}


def split_frames(stream):
    """Reference slicing of a byte stream: -> (list of complete frames, remainder)."""
    frames, off = [], 0
    while len(stream) - off >= 24:
        ln, = struct.unpack_from('<H', stream, off + 2)
        if len(stream) - off < 24 + ln:
            break
        frames.append(stream[off:off + 24 + ln])
        off += 24 + ln
    return frames, stream[off:]


def rr_frame(cip, session, context=b'\x00' * 8, timeout=5):
    """SendRRData carrying an unconnected CIP message (null address item + 0xB2 data item)."""
    return enc_frame(0x6F, enc_send_data([(0x0000, b''), (0x00B2, cip)], timeout=timeout), session=session, context=context)


def unit_frame(cip, session, connection_id, sequence, context=b'\x00' * 8):
    """SendUnitData carrying a connected CIP message."""
    return enc_frame(0x70, enc_send_data([(0x00A1, struct.pack('<I', connection_id)), (0x00B1, struct.pack('<H', sequence) + cip)], timeout=0),
                     session=session, context=context)


def register_frame(context=b'\x00' * 8, version=1, options=0):
    return enc_frame(0x65, struct.pack('<HH', version, options), context=context)


def dec_frame(frame):
    """-> dict: header fields + (for 0x6F/0x70) 'items' list of (type, payload), 'cip' payload and 'sequence'/'connection'."""
    h = dec_header(frame)
    body = frame[24:]
    if len(body) != h['length']:
        raise ValueError('frame length mismatch')
    h['body'] = body
    if h['command'] in (0x6F, 0x70) and body:
        iface, tmo = struct.unpack_from('<IH', body)
        items, end = dec_cpf(body, 6)
        if end != len(body):
            raise ValueError('trailing bytes after CPF')
        h['interface'], h['timeout'], h['items'] = iface, tmo, items
        for tid, payload in items:
            if tid == 0x00B2:
                h['cip'] = payload
            elif tid == 0x00B1:
                h['sequence'], = struct.unpack_from('<H', payload)
                h['cip'] = payload[2:]
            elif tid == 0x00A1:
                h['connection'], = struct.unpack_from('<I', payload)
    elif h['command'] == 0x65 and body:
        h['protocol_version'], h['register_options'] = struct.unpack('<HH', body)
    elif h['command'] in (0x04, 0x63, 0x64, 0x01) and body:
        h['items'], end = dec_cpf(body, 0)
    return h


def enc_identity_item(d):
    out = struct.pack('<H', d['version']) + struct.pack('>hH', d['sin_family'], d['sin_port']) + enc_ipaddr(d['sin_addr'], network=True) + b'\x00' * 8
    out += struct.pack('<HHHHHI', d['vendor_id'], d['device_type'], d['product_code'], d['product_revision'], d['status_word'], d['serial_number'])
    out += enc_sstring(d['product_name']) + bytes([d.get('state', 0xFF)])
    return out


def dec_identity_item(b):
    d = {}
    d['version'], = struct.unpack_from('<H', b, 0)
    d['sin_family'], d['sin_port'] = struct.unpack_from('>hH', b, 2)
    d['sin_addr'] = str(ipaddress.ip_address(struct.unpack_from('>I', b, 6)[0]))
    (d['vendor_id'], d['device_type'], d['product_code'], d['product_revision'], d['status_word'], d['serial_number']) = struct.unpack_from('<HHHHHI', b, 18)
    n = b[32]
    d['product_name'] = b[33:33 + n].decode('iso-8859-1')
    if len(b) > 33 + n:
        d['state'] = b[33 + n]
    return d


def enc_services_item(d):
    return struct.pack('<HH', d['version'], d['capability']) + d['service_name'].encode('iso-8859-1') + b'\x00'


def enc_legacy_item(d):
    ip = d['ip_address']
    out = struct.pack('<HH', d.get('version', 1), d.get('unknown_1', 0)) + struct.pack('>hH', d['sin_family'], d['sin_port'])
    out += enc_ipaddr(d.get('sin_addr', ip), network=True) + b'\x00' * 8
    e = ip.encode('iso-8859-1')[:16]
    return out + e + b'\x00' * (16 - len(e))

"""C17 -- timestamps and durations survive render/parse; ordering matches the rendering.

Reference-model monitor: every render()/parse pair executed by the workload is compared with an
oracle that uses only CPython's zoneinfo + PEP 495 fold arithmetic (ambiguity decided independently
of cpppo and of the pytz shim), comparisons are checked against the millisecond UTC renderings,
durations against exact timedelta equality.
"""
from __future__ import annotations
import datetime, math, warnings

PROPERTY = 'C17'
META = {
    'level': 'exploration',
    'technique': 'reference-model runtime monitor: render/parse of instants at every DST transition of every zone vs a zoneinfo/PEP-495 oracle; comparison and duration round-trip oracles',
    'text': 'Instants one ulp and 0.4 us from every transition are rendered at precisions 0, 3, 6; precision 0 denotes floor(round(t, 6)). The real timestamp.render / timestamp(text) / comparison operators / duration format+parse are executed on instants placed at and around every '
            'offset transition of the zones of the tz database (found by scanning zoneinfo, not taken from cpppo), at precisions 0..6, rendered in UTC, with the '
            'full zone name, with the default abbreviation and with the numeric offset. The oracle decides from zoneinfo fold arithmetic whether the rendered wall '
            'time is ambiguous: unambiguous zone-name/UTC renderings must parse back to the rendered instant (rounded to the precision), ambiguous ones may be rejected '
            'but never map elsewhere; abbreviation/offset renderings are only required never to parse to a different instant. Quick: a seeded subset of zones and '
            'transitions 2000-2030; thorough: every zone, every transition 1900-2040, plus pre-1970 and far-future instants.',
    'note': 'Trusts CPython zoneinfo + the tzdata in use for the ambiguity oracle, and float64 arithmetic (instants beyond year ~2250 are only judged to the millisecond). '
            'Known finding (not repaired): default abbreviation rendering that names a different zone (CET, EET, MST ...).',
}
LEVEL = META['level']
RULE = ('a case = one (instant, zone, precision, render mode) render+parse, or one ordered pair of instants compared, or one duration formatted+parsed; '
        'distinct by that tuple; non-trivial = the render produced text and the deciding oracle (round-trip / ambiguity / order / equality) was evaluated on it')
ASSUMPTIONS = ['ambiguity oracle: CPython zoneinfo with PEP 495 fold; tz database = whatever zoneinfo resolves (system tzdata or the tzdata wheel)',
               'abbreviation and numeric-offset renderings are judged only for "never a different instant" (the library documents that abbreviations need '
               'support_abbreviations(), unavailable with the zoneinfo shim)']
REQUIRED = ['roundtrip:zone-name:same', 'roundtrip:utc:same', 'ambiguous:seen', 'ambiguous:rejected', 'order:pairs', 'order:equal-renderings',
            'duration:roundtrip', 'render:rounds-up-into-next-second', 'instants:pre-1970', 'mode:abbrev:rejected', 'transitions:used', 'instants:one-ulp-from-transition',
            'duration:branch:fraction', 'duration:branch:us', 'duration:branch:ms', 'duration:branch:zero', 'duration:branch:s-only']
TIMEOUT = {'quick': 300, 'thorough': 2400}
SOFT = {'quick': 35, 'thorough': 600}

UTC = datetime.timezone.utc


def shards(tier):
    return 4 if tier == 'quick' else 16


# ---------------------------------------------------------------- oracle helpers (zoneinfo only)
def utcoffset_at(zi, ts):
    return datetime.datetime.fromtimestamp(ts, UTC).astimezone(zi).utcoffset().total_seconds()


def find_transitions(zi, y0, y1, step_days=9):
    """UTC instants (integer seconds, first second of the new offset) where the zone's UTC offset or abbreviation
    changes, by scanning + bisection."""
    def sig(ts):
        d = datetime.datetime.fromtimestamp(ts, UTC).astimezone(zi)
        return (d.utcoffset(), d.tzname())
    t = int(datetime.datetime(y0, 1, 1, tzinfo=UTC).timestamp())
    end = int(datetime.datetime(y1, 1, 1, tzinfo=UTC).timestamp())
    step = step_days * 86400
    out = []
    prev = sig(t)
    while t < end:
        nxt = min(t + step, end)
        cur = sig(nxt)
        if cur != prev:
            lo, hi = t, nxt
            plo = prev
            while hi - lo > 1:
                mid = (lo + hi) // 2
                if sig(mid) == plo:
                    lo = mid
                else:
                    hi = mid
            out.append(hi)
            # there may be a second change inside the same step: rescan from hi
            prev = sig(hi)
            t = hi
            continue
        t = nxt
        prev = cur
    return out


def wall_instants(zi, naive):
    """All UTC instants whose wall-clock time in zi is `naive` (0 = nonexistent, 1 = unique, 2 = ambiguous)."""
    res = set()
    for fold in (0, 1):
        dt = naive.replace(tzinfo=zi, fold=fold)
        u = dt.astimezone(UTC)
        if u.astimezone(zi).replace(tzinfo=None) == naive:
            res.add(u.timestamp())
    return res


def tolerance(p, t):
    tol = 0.5e-3
    return tol + 4 * math.ulp(abs(t) + 1.0) + 1e-9


# ---------------------------------------------------------------- monitors
class Mon:
    def __init__(self, ctx):
        from cpppo.history import times
        self.ctx = ctx
        self.times = times
        self.ts = times.timestamp
        self.zcache = {}

    def zi(self, zone):
        import zoneinfo
        z = self.zcache.get(zone)
        if z is None:
            z = self.zcache[zone] = zoneinfo.ZoneInfo(zone)
        return z

    def render_parse(self, t, zone, p, mode):
        """mode: 'utc' | 'zone-name' | 'abbrev' | 'offset'"""
        ctx, ts = self.ctx, self.ts
        wit = {'instant': repr(t), 'zone': zone, 'precision': p, 'mode': mode}
        kw = {'ms': p if p else False}
        if mode == 'zone-name':
            kw['tzdetail'] = True
        elif mode == 'offset':
            kw['tzdetail'] = False
        try:
            text = ts(t).render(None if mode == 'utc' else zone, **kw)
        except Exception as exc:
            ctx.violation('render-raises', 'timestamp(%r).render(%r,%r) raised %r' % (t, zone, kw, exc), wit)
            return
        wit['text'] = text
        v = round(t, p) if p else t          # what the text denotes (the library rounds to the precision first)
        if p == 0:
            # %S of the instant: whole seconds, fraction dropped -- of the instant as a datetime can hold it, i.e. rounded to
            # microseconds first (an instant less than half a microsecond before a whole second IS that second for datetime)
            v = math.floor(round(t, 6))
        if math.floor(round(t, p) if p else t) > math.floor(t):
            ctx.count('render:rounds-up-into-next-second')
        if t < 0:
            ctx.count('instants:pre-1970')
        try:
            got = ts(text).value
            rejected = None
        except ValueError as exc:
            got, rejected = None, exc
        except Exception as exc:
            ctx.violation('parse-raises-unexpected', 'timestamp(%r) raised %r' % (text, exc), wit)
            return
        ctx.case((repr(t), zone, p, mode))
        # independent view of the rendered wall time
        if mode == 'utc':
            n_inst = 1
        else:
            zi = self.zi(zone)
            naive = datetime.datetime.fromtimestamp(math.floor(v), UTC).astimezone(zi).replace(tzinfo=None)
            n_inst = len(wall_instants(zi, naive))
        wit['instants_with_this_wall_time'] = n_inst
        same = got is not None and abs(got - v) <= tolerance(p, v)
        wit['parsed'] = repr(got)
        wit['expected'] = repr(v)
        if mode in ('utc', 'zone-name'):
            if n_inst >= 2:
                ctx.count('ambiguous:seen')
                if got is None:
                    ctx.count('ambiguous:rejected')
                elif same:
                    ctx.count('ambiguous:resolved-correctly')
                else:
                    ctx.violation('ambiguous-wall-time-mapped-to-other-instant',
                                  '%r renders %r; parsed to %r, a different instant, instead of being rejected' % (t, text, got), wit)
                return
            if got is None:
                key = 'unambiguous-rendering-rejected'
                if mode == 'zone-name' and any(c in zone for c in '-.:'):
                    key = 'zone-name-with-separator-rejected'
                ctx.violation(key, '%r renders %r (unambiguous wall time) but parsing it is rejected: %s' % (t, text, str(rejected)[:120]), wit)
                return
            if not same:
                key = 'roundtrip-differs'
                if v < 0 and abs(abs(got - v) - abs(1 - 2 * (v % 1))) < 2e-3 + 10 ** -max(p, 1):
                    key = 'pre-1970-fraction'
                ctx.violation(key, '%r renders %r which parses to %r (expected %r, off by %.6f s)' % (t, text, got, v, got - v), wit)
                return
            ctx.count('roundtrip:%s:same' % mode)
        else:
            # abbreviation / numeric offset: rejection is tolerated, a different instant is not
            if got is None:
                ctx.count('mode:%s:rejected' % mode)
            elif same:
                ctx.count('mode:%s:same' % mode)
            elif n_inst >= 2 and False:
                pass
            else:
                tail = text.split()[-1]
                if mode == 'abbrev' and tail.isalpha():
                    key = 'abbreviation-names-other-zone'
                elif mode == 'abbrev':
                    key = 'numeric-abbreviation-parsed-as-fraction'
                else:
                    key = 'numeric-offset-parsed-as-fraction'
                ctx.violation(key, '%r in %s renders %r which parses, without complaint, to %r (%.3f s away)' % (
                    t, zone, text, got, got - v), wit)

    def order(self, a, b):
        ctx, ts = self.ctx, self.ts
        A, B = ts(a), ts(b)
        sa, sb = str(A), str(B)
        wit = {'a': repr(a), 'b': repr(b), 'str_a': sa, 'str_b': sb}
        lt, gt, eq, ne, le, ge = A < B, A > B, A == B, A != B, A <= B, A >= B
        wit.update(lt=lt, gt=gt, eq=eq)
        ctx.count('order:pairs')
        ctx.case(('order', repr(a), repr(b)))
        if (lt and sa > sb) or (gt and sa < sb):
            return ctx.violation('comparison-contradicts-rendering', '%r vs %r: lt=%r gt=%r but renderings %s / %s' % (a, b, lt, gt, sa, sb), wit)
        if sa == sb:
            ctx.count('order:equal-renderings')
            if not eq or ne or lt or gt or not le or not ge:
                return ctx.violation('equal-renderings-compare-unequal', '%r vs %r render %s both but eq=%r lt=%r gt=%r' % (a, b, sa, eq, lt, gt), wit)
        if eq == ne or le == gt or ge == lt or (lt and gt):
            return ctx.violation('comparison-operators-inconsistent', '%r vs %r: %r' % (a, b, (lt, gt, eq, ne, le, ge)), wit)
        # renderings at least 3 ms apart must compare strictly
        da = datetime.datetime.strptime(sa, '%Y-%m-%d %H:%M:%S.%f')
        db = datetime.datetime.strptime(sb, '%Y-%m-%d %H:%M:%S.%f')
        d = (db - da).total_seconds()
        if d >= 0.003 and not lt or d <= -0.003 and not gt:
            return ctx.violation('distinct-renderings-not-ordered', '%r vs %r render %s / %s but lt=%r gt=%r' % (a, b, sa, sb, lt, gt), wit)
        if abs(d) >= 0.003:
            ctx.count('order:strict')

    def duration(self, td):
        ctx = self.ctx
        D = self.times.duration
        wit = {'days': td.days, 'seconds': td.seconds, 'microseconds': td.microseconds}
        try:
            text = str(D(td))
            back = D(text).timedelta
        except Exception as exc:
            return ctx.violation('duration-raises', 'duration %r: %r' % (td, exc), wit)
        wit['text'] = text
        ctx.case(('dur', td.days, td.seconds, td.microseconds))
        ctx.count('duration:roundtrip')
        us, s = td.microseconds, td.seconds % 60
        if us // 1000 and (s or us % 1000):
            ctx.count('duration:branch:fraction')
        elif us % 1000:
            ctx.count('duration:branch:us')
        elif us:
            ctx.count('duration:branch:ms')
        elif td.days == 0 and td.seconds == 0:
            ctx.count('duration:branch:zero')
        elif s:
            ctx.count('duration:branch:s-only')
        else:
            ctx.count('duration:branch:no-seconds')
        if back != td:
            return ctx.violation('duration-roundtrip-differs', 'duration %r formats as %r which parses to %r' % (td, text, back), wit)
        # parse_seconds on the same text agrees
        try:
            ps = self.times.parse_seconds(text)
            if abs(ps - td.total_seconds()) > 1e-6 * max(1.0, abs(ps)) * 1e-3 + 1e-6:
                return ctx.violation('parse-seconds-differs', 'parse_seconds(%r) = %r, expected %r' % (text, ps, td.total_seconds()), wit)
        except Exception as exc:
            return ctx.violation('duration-raises', 'parse_seconds(%r): %r' % (text, exc), wit)

    def offset(self, x):
        ctx = self.ctx
        try:
            text = self.times.format_offset(x)
            back = self.times.parse_offset(text)
        except Exception as exc:
            return ctx.violation('offset-raises', 'offset %r: %r' % (x, exc), {'x': x})
        ctx.count('offset:roundtrip')
        if abs(back - x) > 0.00051:
            ctx.violation('offset-roundtrip-differs', 'format_offset(%r) = %r parses to %r' % (x, text, back), {'x': x, 'text': text})


DELTAS = [-7200, -3600.0005, -3600, -1740, -1, -0.0006, -0.001, 0, 0.001, 0.9996, 1, 1740, 3599.9996, 3600, 5400, 7200]
FRACS = [0.0, 0.0004, 0.0005, 0.00051, 0.4994, 0.4995, 0.4996, 0.9994, 0.9995, 0.9996, 0.99951, 0.999999, 0.5, 0.25, 0.125, 0.001, 0.0015]


def run(ctx):
    import zoneinfo
    warnings.simplefilter('ignore')
    mon = Mon(ctx)
    rng = ctx.rng
    quick = ctx.tier == 'quick'
    zones = sorted(z for z in zoneinfo.available_timezones() if z not in ('localtime', 'Factory') and not z.startswith('posix') and not z.startswith('right'))
    mine = [z for i, z in enumerate(zones) if i % ctx.nshards == ctx.shard]
    if quick:
        # a seeded subset, but always with zones that exercise each mechanism
        must = ['America/Edmonton', 'Europe/London', 'Australia/Lord_Howe', 'Africa/Casablanca', 'America/Port-au-Prince', 'Etc/GMT-1',
                'America/Sao_Paulo', 'Africa/Algiers', 'Asia/Kathmandu', 'Pacific/Apia', 'America/St_Johns', 'Europe/Dublin']
        mine = [z for i, z in enumerate(must) if i % ctx.nshards == ctx.shard] + rng.sample(mine, min(7, len(mine)))
    y0, y1 = (2000, 2030) if quick else (1900, 2040)
    precisions = [0, 3, 6] if quick else [0, 1, 2, 3, 4, 5, 6]
    for zone in mine:
        if ctx.expired():
            ctx.notes.append('zone sweep stopped at the soft budget')
            break
        zi = mon.zi(zone)
        trans = find_transitions(zi, y0, y1)
        ctx.count('zones')
        ctx.count('transitions:found', len(trans))
        if quick and len(trans) > 24:
            trans = rng.sample(trans, 24)
        for T in trans:
            ctx.count('transitions:used')
            # the last representable instants before the transition (and the first after): a fraction that any rounding to
            # microseconds carries into the second in which the offset changes
            for t in (math.nextafter(T, -math.inf), T - 4e-7, math.nextafter(T, math.inf), math.nextafter(T + 3600, -math.inf), math.nextafter(T - 3600, -math.inf)):
                for p in (0, 6, 3):
                    mon.render_parse(t, zone, p, 'zone-name')
                mon.render_parse(t, zone, 0, 'offset')
                ctx.count('instants:one-ulp-from-transition')
            for d in DELTAS:
                t = T + d
                for p in precisions:
                    mon.render_parse(t, zone, p, 'zone-name')
                mon.render_parse(t, zone, 3, 'abbrev')
                mon.render_parse(t, zone, 0, 'abbrev')
                mon.render_parse(t, zone, 0, 'offset')
                if d in (0, -1):
                    mon.render_parse(t, zone, 3, 'offset')
        # a few instants away from transitions, incl. pre-1970 and far future
        for _ in range(6 if quick else 40):
            t = rng.choice([rng.uniform(-2.2e9, 0), rng.uniform(0, 4e9), rng.uniform(4e9, 2.5e11)]) if not quick or rng.random() < 0.7 else rng.uniform(0, 2e9)
            t = math.floor(t) + rng.choice(FRACS)
            for p in precisions:
                mon.render_parse(t, zone, p, 'zone-name')
            mon.render_parse(t, zone, 3, 'abbrev')
        if ctx.want_sample() and trans:
            T = trans[len(trans) // 2]
            ctx.sample({'zone': zone, 'transition_utc': T,
                        'render_zone_name': mon.ts(T - 1740).render(zone, tzdetail=True),
                        'render_default': mon.ts(T - 1740).render(zone)})
    # UTC renderings: fractions that round up, every precision, negative instants
    n = 1500 if quick else 60000
    for i in range(n):
        if ctx.expired():
            break
        base = rng.choice([0, 59, 3599, 86399, 1399326141, 1414915323, -1, -86400, -1e9, 2**31 - 1, 2**31, 4102444799, 1e10, 2.5e11])
        if rng.random() < 0.5:
            base = math.floor(rng.uniform(-2e9, 5e9))
        t = base + rng.choice(FRACS)
        p = rng.choice([0, 1, 2, 3, 3, 3, 4, 5, 6])
        mon.render_parse(t, 'UTC', p, 'utc')
    # ordering: pairs a fraction of a millisecond to a few milliseconds apart, at rounding boundaries
    gaps = [0, 1e-7, 0.0004, 0.0005, 0.00051, 0.000999, 0.001, 0.0010001, 0.0015, 0.002, 0.0029, 0.003, 0.0031, 0.01, 1.0]
    for i in range(2500 if quick else 120000):
        if ctx.expired():
            break
        base = math.floor(rng.choice([rng.uniform(0, 2e9), rng.uniform(-1e9, 0), 1399326141, 1414915323, rng.uniform(2e9, 1e10)]))
        a = base + rng.choice(FRACS) + rng.choice([0, 0, 1e-7, -1e-7, 3e-7])
        b = a + rng.choice(gaps) * rng.choice([1, -1])
        mon.order(a, b)
        if ctx.want_sample() and i == 17:
            ctx.sample({'compare': [repr(a), repr(b)], 'renderings': [str(mon.ts(a)), str(mon.ts(b))], 'lt': mon.ts(a) < mon.ts(b)})
    # durations: unit boundaries +-1us, seeded across the whole range
    D = mon.times.duration
    units = [1e-6, 1e-3, 1, 60, 3600, 86400, 604800, 31557600]
    bound = []
    for u in units:
        for k in (1, 2, 10, 59, 60, 999, 1000):
            for e in (-1e-6, 0, 1e-6, 0.001, 0.5, 0.001001):
                x = u * k + e
                if x >= 0:
                    bound.append(x)
    for x in ctx.split(bound):
        us = round(x * 1e6)
        mon.duration(datetime.timedelta(microseconds=us))
    for i in range(2000 if quick else 150000):
        if ctx.expired():
            break
        mag = rng.choice([1e-6, 1e-3, 1, 60, 3600, 86400, 604800, 31557600, 31557600 * 100, 31557600 * 10000])
        us = int(rng.uniform(0, mag) * 1e6)
        r = rng.random()
        if r < 0.25:
            us -= us % 1000000          # whole seconds
        elif r < 0.4:
            us -= us % 1000             # whole milliseconds
        elif r < 0.5:
            us = us - us % 60000000 + us % 1000     # minutes + microseconds only
        mon.duration(datetime.timedelta(microseconds=us))
        if ctx.want_sample() and i == 5:
            td = datetime.timedelta(microseconds=us)
            ctx.sample({'duration_us': us, 'text': str(D(td))})
    mon.duration(datetime.timedelta(0))
    for i in range(300 if quick else 20000):
        x = rng.choice([0.0, 59.9994, 59.9996, 3599.9996, rng.uniform(-90000, 90000), rng.uniform(-100, 100)])
        mon.offset(x)


def replay(ctx, witness):
    warnings.simplefilter('ignore')
    mon = Mon(ctx)
    if 'mode' in witness:
        mon.render_parse(float(witness['instant']), witness['zone'], witness['precision'], witness['mode'])
    elif 'a' in witness:
        mon.order(float(witness['a']), float(witness['b']))
    elif 'days' in witness:
        mon.duration(datetime.timedelta(days=witness['days'], seconds=witness['seconds'], microseconds=witness['microseconds']))
    elif 'x' in witness:
        mon.offset(witness['x'])

import logging; logging.disable(logging.CRITICAL)
import cpppo, struct
from cpppo.server.enip import parser, client, logix, device, ucmm
from cpppo.server.enip.device import Attribute
from cpppo.dotdict import dotdict
def hdr( cmd, payload=b'', sess=1, status=0, ctx=b'\0'*8, opt=0 ):
    return struct.pack('<HHII8sI', cmd, len(payload), sess, status, ctx, opt) + payload
def rr( mr, ctx=b'CTX00000' ):
    cpf = struct.pack('<IH', 0, 8) + struct.pack('<H',2) + struct.pack('<HH',0,0) + struct.pack('<HH',0xb2,len(mr)) + mr
    return hdr( 0x6f, cpf, ctx=ctx )
class Sim:
    def __init__( self, tags, **kw ):
        device.lookup_reset(); logix.setup_reset()
        self.tags = dotdict(); self.attr = {}
        for name,(cls,default) in tags.items():
            te = dotdict(); te.attribute = Attribute( name, cls, default=default ); te.path=None; te.error=0
            dict.__setitem__( self.tags, name, te ); self.attr[name]=te.attribute
        self.kw = dict( kw, tags=self.tags )
    def frame( self, enc, addr=('1.2.3.4',1234) ):
        d = dotdict()
        src = cpppo.peekable( enc )
        with parser.enip_machine( context='enip' ) as m:
            for _ in m.run( source=src, data=d, path='request' ): pass
        ok = logix.process( addr, data=d, **self.kw )
        rpy = bytes( parser.enip_encode( d.response.enip )) if ok else None
        return ok, rpy, d
    def mr( self, mrbytes ):
        ok,rpy,d = self.frame( rr( mrbytes ))
        if rpy is None: return None
        st = struct.unpack_from('<I', rpy, 8)[0]
        if st: return ('ENIP',st)
        return rpy[24+6+2+4+4:]   # CIP reply bytes
    def state( self ):
        return { k: list(a.value) if not a.scalar else a.value for k,a in self.attr.items() }
def sym( name ):
    b = name.encode(); s = bytes([0x91,len(b)])+b+(b'\0' if len(b)%2 else b'')
    return s
def path( name, elem=None ):
    p = sym(name)
    if elem is not None:
        p += bytes([0x28,elem]) if elem<256 else bytes([0x29,0])+struct.pack('<H',elem)
    return bytes([len(p)//2])+p
def read_frag( name, elem, n, off ): return bytes([0x52])+path(name,elem)+struct.pack('<HI',n,off)
def read_tag( name, elem, n ): return bytes([0x4c])+path(name,elem)+struct.pack('<H',n)
def write_tag( name, elem, typ, fmt, vals ): return bytes([0x4d])+path(name,elem)+struct.pack('<HH',typ,len(vals))+b''.join(struct.pack(fmt,v) for v in vals)
def write_frag( name, elem, typ, fmt, total, off, vals ): return bytes([0x53])+path(name,elem)+struct.pack('<HHI',typ,total,off)+b''.join(struct.pack(fmt,v) for v in vals)
def usend( mr, route=b'\x01\x00\x01\x00' ):
    return bytes([0x52,0x02,0x20,0x06,0x24,0x01,0x05,0x9d])+struct.pack('<H',len(mr))+mr+(b'\0' if len(mr)%2 else b'')+route
_mr_orig = Sim.mr
def mr2( self, mrbytes ): return _mr_orig( self, usend( mrbytes ))
Sim.mr = mr2

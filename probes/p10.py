import sys, time, threading, socket, struct, logging
from cpppo.server.enip.main import main as enip_main
from cpppo.dotdict import apidict
logging.disable(logging.CRITICAL)
ctl = apidict( 2.0, {'done': False} )
kw = dict( argv=['-a','localhost:0','--no-config','A=INT[10]'], server={'control': ctl} )
t = threading.Thread( target=enip_main, kwargs=kw, daemon=True ); t.start()
while 'address' not in ctl: time.sleep(.01)
addr = ctl['address']
def hdr( cmd, payload=b'', sess=0, status=0, ctx=b'\0'*8, opt=0 ):
    return struct.pack('<HHII8sI', cmd, len(payload), sess, status, ctx, opt) + payload
def rx( s, tmo=1.0 ):
    s.settimeout( tmo ); buf=b''
    try:
        while True:
            d = s.recv(4096)
            if not d: return buf, 'EOF'
            buf += d
    except socket.timeout:
        return buf, 'OPEN'
def trial( *frames ):
    s = socket.create_connection( addr )
    for f in frames: s.sendall( f )
    r = rx( s ); s.close(); return r
reg = hdr( 0x65, struct.pack('<HH',1,0), ctx=b'CTX00001' )
print( 'reg', trial( reg ))
print( 'unknown cmd 0x1234', trial( reg, hdr( 0x1234, b'', sess=1, ctx=b'CTX00002' )))
print( 'nop 0x0000', trial( reg, hdr( 0x0000, b'ab', sess=1 )))
# SendRRData with bad service to Message router: service 0x77 path @2/1
mr = bytes([0x77, 0x02, 0x20, 0x02, 0x24, 0x01])
cpf = struct.pack('<IH', 0, 8) + struct.pack('<H',2) + struct.pack('<HH',0,0) + struct.pack('<HH',0xb2,len(mr)) + mr
print( 'bad svc', trial( reg, hdr( 0x6f, cpf, sess=1, ctx=b'CTX00003' )))
# unknown class path
mr = bytes([0x0e, 0x03, 0x20, 0x55, 0x24, 0x01, 0x30, 0x01])
cpf = struct.pack('<IH', 0, 8) + struct.pack('<H',2) + struct.pack('<HH',0,0) + struct.pack('<HH',0xb2,len(mr)) + mr
print( 'unknown class', trial( reg, hdr( 0x6f, cpf, sess=1, ctx=b'CTX00004' )))
# unknown tag read
mr = bytes([0x4c, 0x03, 0x91, 0x04]) + b'Nope' + struct.pack('<H',1)
cpf = struct.pack('<IH', 0, 8) + struct.pack('<H',2) + struct.pack('<HH',0,0) + struct.pack('<HH',0xb2,len(mr)) + mr
print( 'unknown tag', trial( reg, hdr( 0x6f, cpf, sess=1, ctx=b'CTX00005' )))
# unregister
print( 'unreg', trial( reg, hdr( 0x66, b'', sess=1 )))
# list identity etc
print( 'listid', trial( hdr( 0x63 ))[0][:30])
print( 'listsvc', trial( hdr( 0x04 ))[0])
print( 'listifc', trial( hdr( 0x64 ))[0])
ctl['done']=True

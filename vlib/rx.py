"""Independent regular-expression oracle for C11: AST -> text (greenery / re syntax), AST -> Thompson NFA ->
subset-construction DFA with live-state analysis.  Shares nothing with cpppo or greenery."""
from __future__ import annotations
import itertools

OTHER = '\x00OTHER'          # stands for every symbol that does not occur in the expression


# AST nodes are tuples:
#   ('lit', c) ('set', 'ab') ('nset', 'ab') ('any',)
#   ('cat', x, y) ('alt', x, y) ('star', x) ('plus', x) ('opt', x) ('rep', x, m, n)

def to_text(ast, ctx=0):
    """ctx: 0 = top/alternation operand, 1 = concatenation operand, 2 = operand of a postfix operator"""
    k = ast[0]
    if k == 'lit':
        c = ast[1]
        return ('\\' + c) if c in '\\.[]{}()*+?|^$' else c
    if k == 'set':
        return '[' + ast[1] + ']'
    if k == 'nset':
        return '[^' + ast[1] + ']'
    if k == 'any':
        return '.'
    if k == 'cat':
        s = to_text(ast[1], 1) + to_text(ast[2], 1)
        return '(' + s + ')' if ctx == 2 else s
    if k == 'alt':
        s = to_text(ast[1], 0) + '|' + to_text(ast[2], 0)
        return '(' + s + ')' if ctx >= 1 else s
    if k in ('star', 'plus', 'opt'):
        return to_text(ast[1], 2) + {'star': '*', 'plus': '+', 'opt': '?'}[k]
    if k == 'rep':
        m, n = ast[2], ast[3]
        q = '{%d}' % m if m == n else '{%d,%d}' % (m, n)
        return to_text(ast[1], 2) + q
    raise AssertionError(ast)


def chars_of(ast, acc=None):
    acc = set() if acc is None else acc
    k = ast[0]
    if k == 'lit':
        acc.add(ast[1])
    elif k in ('set', 'nset'):
        acc.update(ast[1])
    elif k in ('cat', 'alt'):
        chars_of(ast[1], acc)
        chars_of(ast[2], acc)
    elif k in ('star', 'plus', 'opt', 'rep'):
        chars_of(ast[1], acc)
    return acc


def has(ast, kinds):
    if ast[0] in kinds:
        return True
    return any(has(x, kinds) for x in ast[1:] if isinstance(x, tuple))


def quantifier_depth(ast):
    """how deeply repetition operators are nested (0: none).  Python's backtracking `re` can take exponential time on depth >= 2."""
    k = ast[0]
    if k in ('lit', 'set', 'nset', 'any'):
        return 0
    if k in ('cat', 'alt'):
        return max(quantifier_depth(x) for x in ast[1:])
    return 1 + quantifier_depth(ast[1])


def postfixed_twice(ast):
    """x** / x+? etc: a postfix operator applied directly to a postfix operator prints as an ambiguous (lazy /
    possessive) quantifier in re syntax; such ASTs are not generated."""
    k = ast[0]
    post = ('star', 'plus', 'opt', 'rep')
    if k in post and ast[1][0] in post:
        return True
    return any(postfixed_twice(x) for x in ast[1:] if isinstance(x, tuple))


def expanded_size(ast):
    """number of NFA fragments the Thompson construction will make (repetitions copy their operand)"""
    k = ast[0]
    if k in ('lit', 'set', 'nset', 'any'):
        return 1
    if k in ('cat', 'alt'):
        return 1 + expanded_size(ast[1]) + expanded_size(ast[2])
    if k in ('star', 'opt'):
        return 1 + expanded_size(ast[1])
    if k == 'plus':
        return 2 + 2 * expanded_size(ast[1])
    if k == 'rep':
        return 1 + max(1, ast[3]) * (1 + expanded_size(ast[1]))
    raise AssertionError(ast)


class NFA:
    def __init__(self):
        self.eps = []       # state -> set of states
        self.tr = []        # state -> list of (predicate-kind, chars, target)

    def new(self):
        self.eps.append(set())
        self.tr.append([])
        return len(self.eps) - 1


def build(nfa, ast):
    """returns (start, end)"""
    k = ast[0]
    if k in ('lit', 'set', 'nset', 'any'):
        s, e = nfa.new(), nfa.new()
        nfa.tr[s].append((k, ast[1] if len(ast) > 1 else '', e))
        return s, e
    if k == 'cat':
        s1, e1 = build(nfa, ast[1])
        s2, e2 = build(nfa, ast[2])
        nfa.eps[e1].add(s2)
        return s1, e2
    if k == 'alt':
        s, e = nfa.new(), nfa.new()
        for sub in ast[1:]:
            a, b = build(nfa, sub)
            nfa.eps[s].add(a)
            nfa.eps[b].add(e)
        return s, e
    if k == 'star':
        s, e = nfa.new(), nfa.new()
        a, b = build(nfa, ast[1])
        nfa.eps[s] |= {a, e}
        nfa.eps[b] |= {a, e}
        return s, e
    if k == 'plus':
        return build(nfa, ('cat', ast[1], ('star', ast[1])))
    if k == 'opt':
        s, e = nfa.new(), nfa.new()
        a, b = build(nfa, ast[1])
        nfa.eps[s] |= {a, e}
        nfa.eps[b].add(e)
        return s, e
    if k == 'rep':
        x, m, n = ast[1], ast[2], ast[3]
        parts = [x] * m + [('opt', x)] * (n - m)
        if not parts:
            s = nfa.new()
            return s, s
        s, e = build(nfa, parts[0])
        for p in parts[1:]:
            a, b = build(nfa, p)
            nfa.eps[e].add(a)
            e = b
        return s, e
    raise AssertionError(ast)


def matches(kind, chars, sym):
    if kind == 'any':
        return True
    if kind == 'lit':
        return sym == chars
    if kind == 'set':
        return sym in chars
    if kind == 'nset':
        return sym == OTHER or sym not in chars
    raise AssertionError(kind)


class TooBig(Exception):
    """the subset construction went past the cap: the expression is skipped (counted), never judged"""


class DFA:
    """Deterministic automaton over alphabet = chars of the expression + OTHER, with liveness."""
    CAP = 4000

    def __init__(self, ast):
        nfa = NFA()
        s, e = build(nfa, ast)
        self.alphabet = sorted(chars_of(ast)) + [OTHER]

        def closure(states):
            stack, seen = list(states), set(states)
            while stack:
                q = stack.pop()
                for r in nfa.eps[q]:
                    if r not in seen:
                        seen.add(r)
                        stack.append(r)
            return frozenset(seen)
        start = closure({s})
        self.start = start
        self.delta = {}
        self.accept = set()
        work, seen = [start], {start}
        while work:
            S = work.pop()
            if e in S:
                self.accept.add(S)
            for a in self.alphabet:
                T = set()
                for q in S:
                    for kind, chars, t in nfa.tr[q]:
                        if matches(kind, chars, a):
                            T.add(t)
                T = closure(T)
                self.delta[(S, a)] = T
                if T not in seen:
                    seen.add(T)
                    work.append(T)
                    if len(seen) > self.CAP:
                        raise TooBig(len(seen))
        # live = can reach an accepting state
        live = set(self.accept)
        rev = {}
        for (S, a), T in self.delta.items():
            rev.setdefault(T, []).append(S)
        stack = list(live)
        while stack:
            T = stack.pop()
            for S in rev.get(T, ()):
                if S not in live:
                    live.add(S)
                    stack.append(S)
        self.live = live

    def sym(self, c):
        return c if c in self.alphabet else OTHER

    def step(self, S, c):
        return self.delta[(S, self.sym(c))]

    def analyse(self, w):
        """-> (P, accepted, member_by_prefix)  P = longest live prefix length; accepted iff P>=1 and w[:P] in L."""
        S = self.start
        member = [S in self.accept]
        P = 0
        alive = S in self.live
        states = [S]
        for i, c in enumerate(w):
            S = self.step(S, c)
            states.append(S)
            member.append(S in self.accept)
            if alive and S in self.live:
                P = i + 1
            else:
                alive = False
        accepted = P >= 1 and states[P] in self.accept
        return P, accepted, member


ATOMS_AB = [('lit', 'a'), ('lit', 'b'), ('set', 'ab'), ('nset', 'a'), ('nset', 'b'), ('nset', 'ab'), ('any',)]
UNARY = [lambda x: ('star', x), lambda x: ('plus', x), lambda x: ('opt', x), lambda x: ('rep', x, 1, 2),
         lambda x: ('rep', x, 2, 2), lambda x: ('rep', x, 0, 2), lambda x: ('rep', x, 2, 3)]


def enumerate_asts(size, atoms=ATOMS_AB, _memo=None):
    """All ASTs with exactly `size` nodes (postfix-on-postfix excluded)."""
    memo = {} if _memo is None else _memo
    key = (size, id(atoms))
    if key in memo:
        return memo[key]
    if size == 1:
        out = list(atoms)
    else:
        out = []
        for x in enumerate_asts(size - 1, atoms, memo):
            if x[0] in ('star', 'plus', 'opt', 'rep'):
                continue
            for u in UNARY:
                out.append(u(x))
        for ls in range(1, size - 1):
            rs = size - 1 - ls
            for x in enumerate_asts(ls, atoms, memo):
                for y in enumerate_asts(rs, atoms, memo):
                    out.append(('cat', x, y))
                    out.append(('alt', x, y))
    memo[key] = out
    return out


def all_strings(alphabet, maxlen):
    for n in range(maxlen + 1):
        for t in itertools.product(alphabet, repeat=n):
            yield ''.join(t)


def random_ast(rng, size, atoms):
    if size <= 1:
        return rng.choice(atoms)
    r = rng.random()
    if r < 0.35:
        x = random_ast(rng, size - 1, atoms)
        if x[0] in ('star', 'plus', 'opt', 'rep'):
            x = ('cat', x, rng.choice(atoms))
        return rng.choice(UNARY)(x)
    ls = rng.randrange(1, size - 1) if size > 2 else 1
    x = random_ast(rng, ls, atoms)
    y = random_ast(rng, max(1, size - 1 - ls), atoms)
    return (rng.choice(['cat', 'alt']), x, y)

"""C15 -- route-path filtering follows the configured device personality.

Monitors: a three-line acceptance rule evaluated for every (personality, request route path,
service) combination against the real UCMM (in-process and through main(--route-path / -S) over
TCP); tag access observed by an instrumented Attribute class (a refused request must not touch a
tag); textual route / connection paths printed by the harness and parsed by the real parsers.
"""
from __future__ import annotations
import json, struct

PROPERTY = 'C15'
META = {
    'level': 'exploration',
    'technique': 'rule oracle over enumerated (personality x request route path x service) combinations with an access-counting Attribute subclass; printer/parser round trip for textual route and connection paths',
    'text': 'A session that the simulator does not open at all is an outcome of the request (judged like a refusal), not a harness failure. Personalities include a router with a route table; every personality is probed with its own link spelt in the other kind (5 vs "5"); addresses in non-canonical spellings must denote the canonical segments in text, JSON and --route-path; the route path an operation spells through the client API (None = default 1/0, False/[] = none, with and without an explicit send path) must be the one the simulator judges. Personalities none / simple / single-segment (numeric, extended-port, IPv4 and IPv6 links) / multi-segment are configured in-process (UCMM_class) and through main(--route-path, -S) '
            'over TCP. Each receives Read Tag, Write Tag, Get Attribute Single and Multiple Service Packet requests bare (no Unconnected Send), with an empty route path, with exactly the configured '
            'path and with paths differing in port, link, link kind, length or extended port. Accept/refuse must equal the rule of the statement; a refused request must carry a non-zero status and '
            'the instrumented Attribute must record no read or write; accepted ones must be served correctly. Route paths and connection paths in every documented text form are printed by the '
            'harness and must parse to the segments they spell.',
    'note': 'main() only admits a single-segment --route-path; multi-segment personalities are exercised in-process only.',
}
LEVEL = META['level']
RULE = ('a case = one (personality, request route path, service) combination executed, or one textual path parsed; enumerated over fixed lists plus seeded variations; '
        'distinct by the tuple; non-trivial = the accept/refuse oracle and the tag-access counters were both evaluated')
ASSUMPTIONS = ['an Unconnected Send with a zero-length route path counts as "no route path"']
REQUIRED = ['client:route-path-spellings', 'personality:routed', 'text:non-canonical-address', 'personality:none', 'personality:simple', 'personality:single', 'personality:multi', 'personality:address-link', 'accepted', 'refused',
            'request:bare', 'request:empty-route-path', 'request:equal', 'request:different', 'monitor:no-tag-access-on-refusal', 'monitor:served-correctly',
            'tcp:route-path-option', 'tcp:simple-option', 'text:route-paths', 'text:connection-paths', 'service:bundle']
TIMEOUT = {'quick': 300, 'thorough': 1800}
SOFT = {'quick': 30, 'thorough': 420}


def shards(tier):
    return 2 if tier == 'quick' else 8


PERSONALITIES = [
    ('none', None),
    ('simple', False),
    ('single', [{'port': 1, 'link': 0}]),
    ('single', [{'port': 2, 'link': 7}]),
    ('single', [{'port': 300, 'link': 1}]),
    ('address-link', [{'port': 2, 'link': '1.2.3.4'}]),
    ('address-link', [{'port': 3, 'link': '2001:db8::1'}]),
    ('address-link', [{'port': 1, 'link': '12'}]),
    ('multi', [{'port': 1, 'link': 0}, {'port': 2, 'link': '10.0.0.9'}]),
    ('routed', [{'port': 1, 'link': 0}]),
    ('routed', [{'port': 3, 'link': '::1'}, {'port': 1, 'link': 5}]),
    ('multi', [{'port': 1, 'link': 2}, {'port': 1, 'link': 3}, {'port': 15, 'link': 4}]),
]


def variations(rng, conf):
    """request route paths: (label, path|'bare')"""
    out = [('bare', 'bare'), ('empty-route-path', [])]
    base = conf if conf else [{'port': 1, 'link': 0}]
    out.append(('equal' if conf else 'different', [dict(s) for s in base]))
    a = [dict(s) for s in base]
    a[0]['port'] = a[0]['port'] + 1
    out.append(('different', a))
    b = [dict(s) for s in base]
    b[-1]['link'] = (b[-1]['link'] + 1) if isinstance(b[-1]['link'], int) else '9.9.9.9'
    out.append(('different', b))
    c = [dict(s) for s in base]
    c[0]['link'] = '1.2.3.4' if isinstance(c[0]['link'], int) else 4
    out.append(('different', c))
    out.append(('different', [dict(s) for s in base] + [{'port': 1, 'link': 0}]))
    if len(base) > 1:
        out.append(('different', [dict(s) for s in base[:-1]]))
        out.append(('different', list(reversed([dict(s) for s in base]))))
    # the same link spelt in the other kind (numeric 5 vs address text "5"): equal as text, different as route path
    e = [dict(s) for s in base]
    for seg in e:
        if isinstance(seg['link'], int):
            seg['link'] = str(seg['link'])
            break
        if isinstance(seg['link'], str) and seg['link'].isdigit():
            seg['link'] = int(seg['link'])
            break
    if e != base:
        out.append(('different', e))
    d = [dict(s) for s in base]
    d[0]['port'] = 4000 if d[0]['port'] < 15 else 4
    out.append(('different', d))
    return out


def rule(conf, req_path):
    """the statement's rule: True = accept"""
    no_path = req_path == 'bare' or req_path == []
    if conf is None:
        return True
    if conf is False:
        return no_path
    return no_path or req_path == conf


def make_attr_class(device, counter):
    class Counting(device.Attribute):
        def __getitem__(self, key):
            counter['get'] += 1
            return super(Counting, self).__getitem__(key)

        def __setitem__(self, key, value):
            counter['set'] += 1
            return super(Counting, self).__setitem__(key, value)
    return Counting


SERVICES = ['read_tag', 'write_tag', 'get_attribute_single', 'bundle']


def request_for(svc, k):
    if svc == 'read_tag':
        return {'path': {'segment': [{'symbolic': 'RP'}]}, 'read_tag': {'elements': 3}}
    if svc == 'write_tag':
        return {'path': {'segment': [{'symbolic': 'RP'}, {'element': 1}]}, 'write_tag': {'type': 0xC3, 'elements': 2, 'data': [k % 30000, 7]}}
    if svc == 'get_attribute_single':
        return {'path': {'segment': [{'class': 0x93}, {'instance': 1}, {'attribute': 2}]}, 'get_attribute_single': True}
    return {'path': {'segment': [{'class': 2}, {'instance': 1}]}, 'multiple': {'request': [request_for('read_tag', k), request_for('write_tag', k)]}}


def one(ctx, send, state, counter, model, pname, conf, label, rpath, svc, k, wit):
    from vlib import refcodec as rc, simcheck
    req = request_for(svc, k)
    cip = rc.enc_request(req)
    payload = cip if rpath == 'bare' else rc.enc_unconnected_send(cip, route_path=rpath)
    before = state()
    counter['get'] = counter['set'] = 0
    st, rep_b, out = send(payload)
    gets, sets = counter['get'], counter['set']
    accept = rule(conf, rpath)
    ctx.count('personality:' + pname)
    ctx.count('request:' + label)
    if svc == 'bundle':
        ctx.count('service:bundle')
    w = dict(wit, personality=conf, request_route_path=rpath, service=svc)
    ctx.case((pname, json.dumps(conf), json.dumps(rpath), svc))
    accepted = st == 0 and rep_b is not None
    if accept and not accepted:
        ctx.violation('allowed-route-path-refused', 'personality %r, request route path %r, %s: refused (encapsulation status %r, %s)' % (conf, rpath, svc, st, out), w)
        return False
    if not accept and accepted:
        ctx.violation('forbidden-route-path-accepted', 'personality %r, request route path %r, %s: accepted' % (conf, rpath, svc), w)
        return False
    if not accept:
        ctx.count('refused')
        ctx.count('monitor:no-tag-access-on-refusal')
        if st in (0, None) and out == 'reply':
            ctx.violation('refusal-without-error-status', 'refused request answered with encapsulation status %r' % st, w)
            return False
        if gets or sets or state() != before:
            ctx.violation('refused-request-accessed-a-tag', 'personality %r, request route path %r, %s refused, yet %d reads / %d writes of tag values happened' % (conf, rpath, svc, gets, sets), w)
            return False
        return True
    ctx.count('accepted')
    real = rc.dec_reply(rep_b)
    want = model.apply(req)
    mm = simcheck.reply_mismatch(real, want)
    ctx.count('monitor:served-correctly')
    if mm:
        ctx.violation('accepted-request-served-wrongly', 'personality %r, route path %r, %s: %s' % (conf, rpath, svc, '; '.join(mm[:2])), w)
        return False
    return True


CFG = [('RP', 'INT', 6, '0x93/1/2'), ('Other', 'DINT', 2, None)]


def in_process(ctx, rng, pname, conf):
    from vlib import simdrv, arraymodel
    import cpppo
    from cpppo.server.enip import device, ucmm
    counter = {'get': 0, 'set': 0}
    ucls = None
    if conf is not None:
        attrs = {'route_path': conf}
        if pname == 'routed':
            # a router personality: besides its own route path it holds a table of routes to other devices (none of the probing
            # requests addresses one of them: their first segment is never port 9)
            attrs['route'] = {'9/1-15': 'localhost:1', '9/77': 'localhost:2'}
            ctx.count('personality:routed')
        ucls = type('UCMM', (ucmm.UCMM,), attrs)
    sim = simdrv.Sim(CFG, UCMM_class=ucls, attribute_class=make_attr_class(device, counter))
    model = arraymodel.Model(CFG)
    try:
        sim.register()
        k = 0
        for label, rpath in variations(rng, conf):
            for svc in SERVICES:
                k += 1
                ok = one(ctx, lambda p: sim.cip(p, wrap=False), sim.state, counter, model, pname, conf, label, rpath, svc, k, {'transport': 'in-process'})
                if not ok:
                    return
    finally:
        sim.close()


def over_tcp(ctx, rng, pname, conf, argv_extra):
    from vlib import simdrv, arraymodel, reqgen
    from cpppo.server.enip import device
    counter = {'get': 0, 'set': 0}
    try:
        sim = simdrv.TcpSim(reqgen.argv_of(CFG) + argv_extra, extra_kwds={'attribute_class': make_attr_class(device, counter)})
    except RuntimeError as exc:
        ctx.violation('documented-route-path-option-rejected', 'the simulator does not start with %r: %s' % (argv_extra, exc), {'argv': argv_extra})
        return
    model = arraymodel.Model(CFG)
    holder = {}

    def send(payload):
        c = holder.get('c')
        if c is None or c.closed:
            c = holder['c'] = simdrv.RawClient(sim.address)
            try:
                c.register()
            except RuntimeError:
                # a simulator of this personality that does not even open a session serves no request, whatever its route path
                c.close()
                holder['c'] = None
                return None, None, 'session-not-opened'
        fr = c.rr(payload, wrap=False)
        if fr is None or fr['status'] != 0:
            c.close()
            holder['c'] = None
        if fr is None:
            return None, None, 'closed'
        return fr['status'], fr.get('cip'), 'reply'
    try:
        k = 100
        for label, rpath in variations(rng, conf):
            for svc in SERVICES:
                k += 1
                if not one(ctx, send, sim.state, counter, model, pname, conf, label, rpath, svc, k, {'transport': 'tcp', 'argv': argv_extra}):
                    return
    finally:
        if holder.get('c'):
            holder['c'].close()
        sim.stop()


# ---------------------------------------------------------------- text forms
def text_forms(ctx, rng):
    from cpppo.server.enip import device
    from vlib import gen
    for _ in range(60 if ctx.tier == 'quick' else 3000):
        n = rng.choice([1, 1, 2, 3])
        segs = []
        for _i in range(n):
            port = rng.choice([1, 2, 14, 15, 16, 255, 4000])
            link = rng.choice([0, 1, 9, 255]) if rng.random() < 0.5 else rng.choice(['1.2.3.4', '192.168.0.24', '10.0.0.1'])
            segs.append({'port': port, 'link': link})
        forms = ['/'.join('%d/%s' % (s['port'], s['link']) for s in segs), json.dumps(segs)]
        if n == 1:
            forms.append(json.dumps(segs[0]))
        # every spelling of the same address denotes the same segments: addresses written in a non-canonical way (IPv6 with leading
        # zeros / capitals / expanded zero runs), in the textual and in the JSON forms
        if rng.random() < 0.5:
            spell, canon = rng.choice([('2001:0DB8::0001', '2001:db8::1'), ('FE80::1', 'fe80::1'), ('0::1', '::1'), ('2001:db8:0:0:0:0:0:1', '2001:db8::1'), ('::FFFF:1.2.3.4', '::ffff:102:304')])
            try:
                import ipaddress
                canon = str(ipaddress.ip_address(spell))
            except Exception:
                pass
            k_ = rng.randrange(n)
            alt = [dict(s) for s in segs]
            alt[k_]['link'] = spell
            segs = [dict(s) for s in segs]
            segs[k_]['link'] = canon
            forms = [json.dumps(alt)] + ([json.dumps(alt[0])] if n == 1 else [])
            if all(':' not in str(s['link']) or True for s in alt):
                forms.append('/'.join('%d/%s' % (s['port'], s['link']) for s in alt))
            ctx.count('text:non-canonical-address')
        for text in forms:
            ctx.count('text:route-paths')
            ctx.case(('text', text))
            try:
                got = device.parse_route_path(text)
            except Exception as exc:
                ctx.violation('route-path-text-rejected', 'parse_route_path(%r) raised %r' % (text, exc), {'text': text})
                continue
            if [dict(g) for g in got] != segs:
                ctx.violation('route-path-text-misparsed', 'parse_route_path(%r) -> %r, spelled %r' % (text, got, segs), {'text': text})
        # connection path = route path + trailing CIP path
        trailer, tsegs = rng.choice([('@2/1', [{'class': 2}, {'instance': 1}]), ('@1/1/7', [{'class': 1}, {'instance': 1}, {'attribute': 7}]),
                                     ('TagName[0]', [{'symbolic': 'TagName'}, {'element': 0}]), ('@0x93/3', [{'class': 0x93}, {'instance': 3}])])
        text = '/'.join('%d/%s' % (s['port'], s['link']) for s in segs) + '/' + trailer
        ctx.count('text:connection-paths')
        try:
            got = device.parse_connection_path(text)
            if [dict(g) for g in got] != segs + tsegs:
                ctx.violation('connection-path-text-misparsed', 'parse_connection_path(%r) -> %r, spelled %r' % (text, got, segs + tsegs), {'text': text})
        except Exception as exc:
            ctx.violation('connection-path-text-rejected', 'parse_connection_path(%r) raised %r' % (text, exc), {'text': text})
    for text, want in (('null', None), ('0', 0), ('false', False), ('[]', [])):
        try:
            got = device.parse_route_path(text)
        except Exception as exc:
            ctx.violation('route-path-text-rejected', 'parse_route_path(%r) raised %r' % (text, exc), {'text': text})
            continue
        if got != want or (want is not None and got is not want and want != [] and type(got) is not type(want)):
            ctx.violation('route-path-text-misparsed', 'parse_route_path(%r) -> %r' % (text, got), {'text': text})
        ctx.count('text:route-paths')


def client_part(ctx, rng):
    """The route path an operation spells through the client API (text form, JSON, structure, None = the documented default 1/0,
    False/0/[] = none) is the one the configured simulator judges, whatever send path is given along with it."""
    from vlib import simdrv, reqgen
    from cpppo.server.enip import client
    conf = [{'port': 1, 'link': 1}]
    sim = simdrv.TcpSim(reqgen.argv_of(CFG) + ['--route-path', '1/1'])
    try:
        default = client.connector.route_path_default
        if isinstance(default, str):
            from cpppo.server.enip import device
            default = [dict(s) for s in device.parse_route_path(default)]
        spellings = [(None, list(default)), ('1/1', conf), ('1/0', [{'port': 1, 'link': 0}]), ('[{"port": 1, "link": 1}]', conf), ([{'port': 1, 'link': 1}], conf),
                     ('1/1/2/3', conf + [{'port': 2, 'link': 3}]), (False, 'bare'), ([], 'bare'), (0, 'bare')]
        k = 0
        for rp, spelled in spellings:
            for sp in (None, '@6/1'):       # the Connection Manager, implicitly and spelled out
                if spelled == 'bare' and sp is None:
                    sp_use = ''
                else:
                    sp_use = sp
                k += 1
                kw = {}
                if rp is not None:
                    kw['route_path'] = rp
                if sp_use is not None:
                    kw['send_path'] = sp_use
                wit = {'client': True, 'route_path': repr(rp), 'send_path': repr(sp_use), 'configured': conf}
                want = rule(conf, spelled)
                val = 100 + k
                sim.attributes()['RP'][0] = 7
                accepted, err = None, None
                try:
                    with client.connector(host=sim.address[0], port=sim.address[1], timeout=20) as conn:
                        res = list(conn.operate(client.parse_operations(['RP[0]=%d' % val], **kw), timeout=20))
                    accepted = bool(res) and res[0][4] in (0, 6)
                except Exception as exc:
                    accepted, err = False, repr(exc)[:160]
                ctx.count('client:route-path-spellings')
                ctx.case(('client-rp', repr(rp), repr(sp_use)))
                wrote = sim.attributes()['RP'][0] == val
                if accepted != want or wrote != want:
                    ctx.violation('client-route-path-not-as-spelled', 'operation with route_path=%r send_path=%r spells the route path %r; a simulator configured with %r must %s it, but the '
                                  'request was %s (tag %s)%s' % (rp, sp_use, spelled, conf, 'accept' if want else 'refuse', 'accepted' if accepted else 'refused',
                                                               'written' if wrote else 'untouched', (': ' + err) if err else ''), wit)
                    return
    finally:
        sim.stop()


def run(ctx):
    rng = ctx.rng
    jobs = []
    for pname, conf in PERSONALITIES:
        jobs.append(('in', pname, conf, None))
    jobs.append(('tcp', 'simple', False, ['-S']))
    jobs.append(('tcp', 'single', [{'port': 1, 'link': 0}], ['--route-path', '1/0']))
    jobs.append(('tcp', 'address-link', [{'port': 2, 'link': '1.2.3.4'}], ['--route-path', '[{"port":2,"link":"1.2.3.4"}]']))
    jobs.append(('tcp', 'simple', False, ['--route-path', 'false']))
    jobs.append(('tcp', 'address-link', [{'port': 3, 'link': '2001:db8::1'}], ['--route-path', '[{"port": 3, "link": "2001:0DB8::0001"}]']))     # configured in a non-canonical spelling
    for j, (how, pname, conf, extra) in enumerate(jobs):
        if j % ctx.nshards != ctx.shard:
            continue
        if how == 'in':
            in_process(ctx, rng, pname, conf)
        else:
            over_tcp(ctx, rng, pname, conf, extra)
            ctx.count('tcp:simple-option' if conf is False else 'tcp:route-path-option')
    if ctx.shard == 0:
        text_forms(ctx, rng)
    if ctx.shard == 1 % ctx.nshards:
        client_part(ctx, rng)
    ctx.sample({'personalities': [json.dumps(c) for _, c in PERSONALITIES], 'request_variations_for_first_single': [v[1] for v in variations(rng, PERSONALITIES[2][1])]})


def replay(ctx, witness):
    ctx.inconclusive_because('re-run by seed (combinations are enumerated, not random)')

"""C09 -- concurrent sessions are isolated and each request is atomic.

Offline checkers over multi-session histories recorded at the client boundary of the real TCP
simulator (server in its own process with a perturbed scheduler: tiny switch interval, in the
thorough tier also LINE-level yield injection via sys.monitoring):
 (1) per session: exactly one reply per request, in order, carrying that session's own unique
     context and handle, no parse failure / EOF;
 (2) torn-read detector: every writer writes one unique stamp over the whole shared range, so a
     read holding two different stamps is a witness by itself;
 (3) Wing-Gong-Lowe linearizability search (vlib/lincheck.py) on short histories with unique values;
 (4) private slices: a session's final read equals its own last acknowledged write.
"""
from __future__ import annotations
import json, os, struct, subprocess, sys, threading, time

PROPERTY = 'C09'
META = {
    'level': 'exploration',
    'technique': 'offline history checkers (exactly-once/in-order per session, torn-read detector with unique stamps, WGL linearizability search against an array model, private-slice conservation) over histories recorded under a perturbed scheduler',
    'text': 'Before the concurrent phases three sessions end badly on the same server (half a header, an unprocessable frame, a reset); yield injection also opens windows inside the element-by-element reply encoders. Cold starts: a freshly started simulator receives the first frames of 6..12 sessions at once (barrier), after which every tag must still be its own storage (a distinct pattern written to each tag is read back from it). The real TCP server runs in its own process started by a harness launcher that sets sys.setswitchinterval(1e-5) (thorough: plus time.sleep(0) yield injection at random LINE events '
            'in automata/device/logix/ucmm/main via sys.monitoring; no repository change). 2..12 client threads drive few tags hard: a shared DINT[8] written whole with unique stamps and read '
            'whole (single requests and bundles), short mixed histories on INT[4] tags with unique values for the linearizability search, and private slices of a DINT[64]. Call time is taken '
            'before sendall, return time after the complete reply frame, one monotonic clock; monitor state is per thread until join. Evidence reports what was actually interleaved: overlapping '
            'operation pairs of different sessions, contentions on the shared parser locks and deferred bundle closures observed inside the server.',
    'note': 'All schedules are out of reach: coverage is what the perturbed scheduler produced (reported as overlapping pairs / lock contentions); a race needing a window that was never hit stays invisible. '
            'A linearizability search that exceeds its step cap is inconclusive, never a violation.',
}
LEVEL = META['level']
RULE = ('a case = one recorded multi-session history (uniform / mixed / private) checked offline; distinct by (workload kind, seed, history digest); '
        'non-trivial = operations of different sessions really overlapped in time (counted) and at least one write was observed by another session')
ASSUMPTIONS = ['server scheduler perturbed by sys.setswitchinterval(1e-5) (and LINE yield injection in the thorough tier)', 'client clocks: time.monotonic_ns in one process']
REQUIRED = ['server:sessions-failed-before-concurrency', 'cold-start:servers', 'monitor:cold-start-tags-distinct', 'server:yields-injected', 'histories:uniform', 'histories:mixed', 'histories:private', 'ops', 'overlapping-pairs', 'server:dfa-lock-contended', 'server:post-closures', 'monitor:torn-read-checks',
            'monitor:lincheck-ok', 'monitor:per-session-order', 'monitor:private-slice', 'reads-observing-foreign-write', 'ops:bundled']
TIMEOUT = {'quick': 300, 'thorough': 2400}
SOFT = {'quick': 60, 'thorough': 900}

NLTAGS = 40


def shards(tier):
    return 2 if tier == 'quick' else 8


class Server:
    def __init__(self, yield_p=0.0, switch=1e-5):
        here = os.path.dirname(os.path.dirname(os.path.abspath(__file__)))
        tags = ['U=DINT[8]', 'P=DINT[96]'] + ['L%d=INT[4]' % i for i in range(NLTAGS)]
        cmd = [sys.executable, '-m', 'vlib.srvproc', '--switch', str(switch)]
        if yield_p:
            cmd += ['--yield-p', str(yield_p)]
        cmd += ['--'] + tags
        env = dict(os.environ)
        self.p = subprocess.Popen(cmd, cwd=here, stdin=subprocess.PIPE, stdout=subprocess.PIPE, stderr=subprocess.DEVNULL, env=env)
        line = self.p.stdout.readline().decode()
        if not line.startswith('ADDRESS'):
            raise RuntimeError('server process did not start: %r' % line)
        _, host, port = line.split()
        self.address = (host, int(port))
        self.stats = {}

    def stop(self):
        try:
            self.p.stdin.close()
            out = self.p.stdout.read().decode()
            for ln in out.splitlines():
                if ln.startswith('STATS '):
                    self.stats = json.loads(ln[6:])
            self.p.wait(10)
        except Exception:
            self.p.kill()


class Recorder:
    """one client thread: its own connection, its own log (merged only after join)"""

    def __init__(self, address, proc, register=True):
        from vlib import simdrv
        self.c = simdrv.RawClient(address, timeout=30)
        self.proc = proc
        self.log = []
        self.n = 0
        self.errors = []
        self.dead = False
        if register:
            try:
                self.c.register(b'R%07d' % proc)
            except RuntimeError as exc:
                # a session that is not even opened (while others are being served) is an observation, not a harness failure
                self.errors.append(('no-reply', 0, repr(exc)))
                self.dead = True

    def do(self, req, tagname):
        """send one request (or bundle) and record member operations"""
        from vlib import refcodec as rc
        if self.dead:
            return None
        self.n += 1
        ctxb = struct.pack('<II', self.proc, self.n)
        cip = rc.enc_request(req)
        t0 = time.monotonic_ns()
        fr = self.c.rr(cip, context=ctxb, timeout=30)
        t1 = time.monotonic_ns()
        if fr is None:
            self.errors.append(('no-reply', self.n))
            return None
        if fr['sender_context'] != ctxb or fr['session_handle'] != self.c.session:
            self.errors.append(('foreign-reply', self.n, fr['sender_context'], fr['session_handle']))
            return None
        if fr['status'] != 0 or not fr.get('cip'):
            self.errors.append(('encapsulation-error', self.n, fr['status']))
            return None
        try:
            rep = rc.dec_reply(fr['cip'])
        except Exception as exc:
            self.errors.append(('undecodable-reply', self.n, repr(exc)))
            return None
        members = list(zip(req['multiple']['request'], rep.get('multiple', {}).get('request', []))) if 'multiple' in req else [(req, rep)]
        if 'multiple' in req and len(rep.get('multiple', {}).get('request', [])) != len(req['multiple']['request']):
            self.errors.append(('bundle-member-count', self.n))
            return None
        for k, (q, r) in enumerate(members):
            idx = next((s['element'] for s in q['path']['segment'] if 'element' in s), 0)
            if 'write_tag' in q:
                if r['status'] != 0:
                    self.errors.append(('write-failed', self.n, r['status']))
                    continue
                self.log.append({'proc': self.proc, 'seq': self.n * 100 + k, 'call': t0, 'ret': t1, 'kind': 'w', 'index': idx, 'values': list(q['write_tag']['data']), 'tag': tagname,
                                 'bundled': 'multiple' in req})
            else:
                if r['status'] != 0:
                    self.errors.append(('read-failed', self.n, r['status']))
                    continue
                self.log.append({'proc': self.proc, 'seq': self.n * 100 + k, 'call': t0, 'ret': t1, 'kind': 'r', 'index': idx, 'values': list(r['read_tag']['data']), 'tag': tagname,
                                 'bundled': 'multiple' in req})
        return rep

    def close(self):
        self.c.close()


def wr(tag, idx, vals, tcode=0xC4):
    segs = [{'symbolic': tag}] + ([{'element': idx}] if idx else [])
    return {'path': {'segment': segs}, 'write_tag': {'type': tcode, 'elements': len(vals), 'data': list(vals)}}


def rd(tag, idx, n):
    segs = [{'symbolic': tag}] + ([{'element': idx}] if idx else [])
    return {'path': {'segment': segs}, 'read_tag': {'elements': n}}


def bundle(members):
    return {'path': {'segment': [{'class': 2}, {'instance': 1}]}, 'multiple': {'request': members}}


def run_threads(fns):
    ths = [threading.Thread(target=f, daemon=True) for f in fns]
    for t in ths:
        t.start()
    for t in ths:
        t.join(120)
    return not any(t.is_alive() for t in ths)


def overlapping_pairs(ops):
    ops = sorted(ops, key=lambda o: o['call'])
    n = 0
    for i, a in enumerate(ops):
        for b in ops[i + 1:]:
            if b['call'] > a['ret']:
                break
            if b['proc'] != a['proc']:
                n += 1
    return n


def session_checks(ctx, recs, wit):
    ctx.count('monitor:per-session-order')
    for r in recs:
        if r.errors:
            e = r.errors[0]
            key = {'foreign-reply': 'session-received-foreign-reply', 'no-reply': 'reply-missing-under-concurrency', 'encapsulation-error': 'parse-failure-under-concurrency',
                   'undecodable-reply': 'parse-failure-under-concurrency', 'bundle-member-count': 'reply-missing-under-concurrency'}.get(e[0], 'request-failed-under-concurrency')
            ctx.violation(key, 'session %d: %r (and %d more)' % (r.proc, e, len(r.errors) - 1), dict(wit, errors=[list(map(str, x)) for x in r.errors[:5]]))
            return False
    return True


def uniform(ctx, srv, rng, nsess, nops, salt):
    """every writer writes ONE unique stamp over the whole range: a read with two stamps is torn"""
    recs = [Recorder(srv.address, salt * 100 + i) for i in range(nsess)]
    seeds = [rng.getrandbits(32) for _ in recs]
    # what the range holds before the concurrent phase (left by an earlier history on the same server)
    rep0 = recs[0].do(rd('U', 0, 8), 'U')
    initial = rep0['read_tag']['data'][0] if rep0 else 0
    recs[0].log.clear()

    def worker(r, seed):
        import random
        rr = random.Random(seed)
        for k in range(nops):
            stamp = (r.proc % 20000) * 100000 + k + 1
            x = rr.random()
            if x < 0.35:
                r.do(wr('U', 0, [stamp] * 8), 'U')
            elif x < 0.7:
                r.do(rd('U', 0, 8), 'U')
            elif x < 0.85:
                r.do(bundle([wr('U', 0, [stamp] * 8), rd('U', 0, 8)]), 'U')
            else:
                r.do(bundle([rd('U', 0, 8), rd('U', 0, 8)]), 'U')
    ok = run_threads([lambda r=r, s=s: worker(r, s) for r, s in zip(recs, seeds)])
    wit = {'workload': 'uniform', 'sessions': nsess, 'ops_per_session': nops}
    ops = [o for r in recs for o in r.log]
    for r in recs:
        r.close()
    if not ok:
        ctx.inconclusive_because('client threads did not finish within 120 s (wall-clock guard)')
        return
    if not session_checks(ctx, recs, wit):
        return
    ctx.count('histories:uniform')
    ctx.count('ops', len(ops))
    ctx.count('ops:bundled', sum(1 for o in ops if o['bundled']))
    ctx.count('overlapping-pairs', overlapping_pairs(ops))
    writes = {o['values'][0]: o for o in ops if o['kind'] == 'w'}
    for o in ops:
        if o['kind'] != 'r':
            continue
        ctx.count('monitor:torn-read-checks')
        vals = o['values']
        if len(set(vals)) != 1:
            ctx.violation('torn-read', 'session %d read %r from the shared range: parts of different writes (stamps %r)' % (o['proc'], vals, sorted(set(vals))), dict(wit, read=o))
            return
        s = vals[0]
        if s != initial:
            w = writes.get(s)
            if w is None:
                ctx.violation('read-returns-never-written-value', 'session %d read stamp %d that nobody wrote' % (o['proc'], s), dict(wit, read=o))
                return
            if w['call'] > o['ret']:
                ctx.violation('read-observes-future-write', 'session %d read stamp %d before its write was even issued' % (o['proc'], s), dict(wit, read=o, write=w))
                return
            if w['proc'] != o['proc']:
                ctx.count('reads-observing-foreign-write')
    # a session's bundle [write s, read] must read s or something written concurrently/later -- never an older own stamp
    ctx.case(('uniform', salt, len(ops)), nontrivial=True)
    if ctx.want_sample():
        ctx.sample({'workload': 'uniform', 'sessions': nsess, 'operations': len(ops), 'overlapping_pairs': overlapping_pairs(ops), 'example_read': next((o['values'] for o in ops if o['kind'] == 'r' and o['values'][0]), None)})


def mixed(ctx, srv, rng, nsess, nops, tagno, salt):
    """short history on one INT[4] tag with unique values -> WGL search"""
    from vlib import lincheck
    tag = 'L%d' % tagno
    recs = [Recorder(srv.address, salt * 100 + i) for i in range(nsess)]
    seeds = [rng.getrandbits(32) for _ in recs]
    counter = {'v': 0}
    lock = threading.Lock()

    def unique(n):
        with lock:
            counter['v'] += n
            base = counter['v'] - n
        return [1 + base + j for j in range(n)]

    def worker(r, seed):
        import random
        rr = random.Random(seed)
        for k in range(nops):
            i = rr.randrange(4)
            n = rr.randrange(1, 5 - i)
            x = rr.random()
            if x < 0.4:
                r.do(wr(tag, i, unique(n), 0xC3), tag)
            elif x < 0.8:
                r.do(rd(tag, i, n), tag)
            else:
                j = rr.randrange(4)
                m = rr.randrange(1, 5 - j)
                r.do(bundle([wr(tag, i, unique(n), 0xC3), rd(tag, j, m)]), tag)
    ok = run_threads([lambda r=r, s=s: worker(r, s) for r, s in zip(recs, seeds)])
    ops = [o for r in recs for o in r.log]
    wit = {'workload': 'mixed', 'tag': tag, 'sessions': nsess, 'history': sorted(ops, key=lambda o: o['call'])}
    for r in recs:
        r.close()
    if not ok:
        ctx.inconclusive_because('client threads did not finish within 120 s (wall-clock guard)')
        return
    if not session_checks(ctx, recs, wit):
        return
    ctx.count('histories:mixed')
    ctx.count('ops', len(ops))
    ctx.count('ops:bundled', sum(1 for o in ops if o['bundled']))
    ctx.count('overlapping-pairs', overlapping_pairs(ops))
    verdict, info = lincheck.check(ops, [0, 0, 0, 0])
    if verdict == 'violation':
        ctx.violation('history-not-linearizable', 'history of %d operations on %s by %d sessions admits no sequential order respecting real time and session order (%r)' % (len(ops), tag, nsess, info), wit)
        return
    if verdict == 'inconclusive':
        ctx.count('lincheck:inconclusive')
        return
    ctx.count('monitor:lincheck-ok')
    ctx.maxc('lincheck-configurations', info)
    ctx.case(('mixed', salt, tagno, len(ops)), nontrivial=overlapping_pairs(ops) > 0)


def private(ctx, srv, rng, nsess, nops, salt):
    recs = [Recorder(srv.address, salt * 100 + i) for i in range(nsess)]
    seeds = [rng.getrandbits(32) for _ in recs]
    last = {}
    lost = {}

    def worker(r, seed, k):
        import random
        rr = random.Random(seed)
        mine = None
        for j in range(nops):
            # nobody else writes this slice: whenever its owner reads it -- right after a write, and again before the next one -- it
            # must hold the owner's last acknowledged write (a lost update shows at the first read after it)
            if mine is not None:
                rep = r.do(rd('P', 8 * k, 8), 'P')
                got = rep['read_tag']['data'] if rep and rep['status'] == 0 else None
                if got != mine and k not in lost:
                    lost[k] = (j, 'before the next write', got, mine)
            vals = [rr.randrange(-2**31, 2**31) for _ in range(8)]
            rep = r.do(wr('P', 8 * k, vals), 'P')
            if rep is not None and rep['status'] == 0:
                mine = vals
                rep = r.do(rd('P', 8 * k, 8), 'P')
                got = rep['read_tag']['data'] if rep and rep['status'] == 0 else None
                if got != mine and k not in lost:
                    lost[k] = (j, 'right after the write', got, mine)
            if rr.random() < 0.3:
                r.do(rd('P', 0, 96), 'P')
        rep = r.do(rd('P', 8 * k, 8), 'P')
        last[k] = (mine, rep['read_tag']['data'] if rep and rep['status'] == 0 else None)
    ok = run_threads([lambda r=r, s=s, k=k: worker(r, s, k) for k, (r, s) in enumerate(zip(recs, seeds))])
    wit = {'workload': 'private', 'sessions': nsess}
    ops = [o for r in recs for o in r.log]
    for r in recs:
        r.close()
    if not ok:
        ctx.inconclusive_because('client threads did not finish within 120 s (wall-clock guard)')
        return
    if not session_checks(ctx, recs, wit):
        return
    ctx.count('histories:private')
    ctx.count('ops', len(ops))
    ctx.count('overlapping-pairs', overlapping_pairs(ops))
    for k, (j, when, got, mine) in sorted(lost.items()):
        ctx.violation('write-to-private-elements-lost', 'session %d, round %d, %s: its own slice reads %r, its last acknowledged write was %r (no other session writes these elements)' % (
            k, j, when, got, mine), dict(wit, session=k))
        return
    for k, (mine, got) in last.items():
        ctx.count('monitor:private-slice')
        if mine is not None and got != mine:
            ctx.violation('write-to-private-elements-lost', 'session %d: final read of its own slice %r, its last acknowledged write %r' % (k, got, mine), dict(wit, session=k))
            return
    ctx.case(('private', salt, len(ops)), nontrivial=True)


def cold_start(ctx, rng, nsess, yield_p, salt):
    """A freshly started simulator whose very first requests arrive from several sessions at once (a barrier releases them together):
    afterwards every tag must still be its own storage -- a pattern written to each tag in turn must be read back from it and from no other."""
    srv = Server(yield_p=yield_p)
    wit = {'workload': 'cold-start', 'sessions': nsess, 'yield_p': yield_p}
    try:
        recs = [Recorder(srv.address, salt * 100 + i, register=False) for i in range(nsess)]       # connected, nothing sent yet
        barrier = threading.Barrier(nsess)

        def first(r):
            barrier.wait(10)
            try:
                r.c.register(b'R%07d' % r.proc)       # the very first frame the simulator processes for this session
            except Exception as exc:
                r.errors.append(('no-reply', 0, repr(exc)))
                return
            r.do(rd('L%d' % (r.proc % NLTAGS), 0, 4), 'L')
            r.do(rd('U', 0, 8), 'U')
        ok = run_threads([lambda r=r: first(r) for r in recs])
        if not ok:
            ctx.inconclusive_because('cold-start sessions still running after 120 s (watchdog)')
            return
        ctx.count('cold-start:servers')
        ctx.case(('cold-start', salt, nsess, yield_p), nontrivial=True)
        if not session_checks(ctx, recs, wit):
            return
        r0 = recs[0]
        r0.errors.clear()
        names = ['L%d' % i for i in range(NLTAGS)]
        for j, nm in enumerate(names):
            r0.do(wr(nm, 0, [1000 + j * 4 + e for e in range(4)], tcode=0xC3), nm)
        r0.do(wr('U', 0, [70000 + e for e in range(8)]), 'U')
        r0.do(wr('P', 0, [90000 + e for e in range(8)]), 'P')
        r0.log.clear()
        for j, nm in enumerate(names):
            rep = r0.do(rd(nm, 0, 4), nm)
            want = [1000 + j * 4 + e for e in range(4)]
            got = rep['read_tag']['data'] if rep and rep.get('status') == 0 else None
            ctx.count('monitor:cold-start-tags-distinct')
            if got != want:
                ctx.violation('tags-share-storage-after-concurrent-first-requests', 'after %d sessions made their first requests together, tag %s reads %r; %r was written to it '
                              '(and other patterns to the other tags)' % (nsess, nm, got, want), wit)
                return
        for nm, base, n in (('U', 70000, 8), ('P', 90000, 8)):
            rep = r0.do(rd(nm, 0, n), nm)
            got = rep['read_tag']['data'] if rep and rep.get('status') == 0 else None
            if got != [base + e for e in range(n)]:
                ctx.violation('tags-share-storage-after-concurrent-first-requests', 'tag %s reads %r after the cold start' % (nm, got), wit)
                return
        if r0.errors:
            session_checks(ctx, [r0], wit)
    finally:
        for r in locals().get('recs', []):
            try:
                r.close()
            except Exception:
                pass
        srv.stop()
    account(ctx, srv)


def failed_sessions(ctx, srv):
    """Before the concurrent phases: a few sessions on the same server end badly (a peer that dies in the middle of a header, a frame
    the server cannot process, a reset).  Whatever a failed session leaves behind in the server must not be shared by later ones."""
    import socket as so, struct as st
    from vlib import refcodec as rc
    for how in ('half-header', 'unknown-command', 'reset-mid-frame'):
        s = so.create_connection(srv.address, timeout=5)
        try:
            if how == 'half-header':
                s.sendall(rc.register_frame()[:10])
            elif how == 'unknown-command':
                s.sendall(rc.enc_frame(0x9999, b'', session=0, context=b'BADCMD00'))
                s.settimeout(2)
                try:
                    while s.recv(4096):
                        pass
                except OSError:
                    pass
            else:
                s.sendall(rc.register_frame() + rc.register_frame()[:30])
                s.setsockopt(so.SOL_SOCKET, so.SO_LINGER, st.pack('ii', 1, 0))
        finally:
            s.close()
        ctx.count('server:sessions-failed-before-concurrency')
    time.sleep(0.3)         # let the server notice the ends


def account(ctx, srv):
    ctx.count('server:dfa-lock-contended', srv.stats.get('dfa_contended', 0))
    ctx.count('server:dfa-enter', srv.stats.get('dfa_enter', 0))
    ctx.count('server:post-closures', srv.stats.get('post_closures', 0))
    ctx.count('server:yields-injected', srv.stats.get('yields', 0))


def run(ctx):
    rng = ctx.rng
    quick = ctx.tier == 'quick'
    rounds = 0
    while not ctx.expired():
        rounds += 1
        if quick and rounds > 1:
            break
        salt = ctx.shard * 1000 + rounds * 10
        # (0) cold starts: the first requests a fresh simulator ever sees arrive from several sessions at once
        for c in range(3 if quick else 6):
            if ctx.expired() and not quick:
                break
            cold_start(ctx, rng, nsess=rng.choice([6, 8, 12]), yield_p=(0.02 if c % 3 == 2 else 0.0), salt=salt + 20 + c)
        # (1) plain server: tiny switch interval only
        srv = Server(yield_p=0.0)
        try:
            failed_sessions(ctx, srv)
            for u in range(1 if quick else 3):
                uniform(ctx, srv, rng, nsess=rng.choice([4, 8]) if quick else rng.choice([2, 4, 8, 12]), nops=40 if quick else 100, salt=salt + u)
            for m in range(NLTAGS if not quick else 15):
                if ctx.expired():
                    break
                mixed(ctx, srv, rng, nsess=rng.choice([2, 3, 4, 6]), nops=rng.choice([3, 5, 8]), tagno=m, salt=salt + 5)
            private(ctx, srv, rng, nsess=rng.choice([4, 8, 12]), nops=10 if quick else 30, salt=salt + 7)
        finally:
            srv.stop()
        account(ctx, srv)
        # (2) server with LINE-level yield injection (slow, so short): widens the windows between the statements of one request
        srv = Server(yield_p=0.02, switch=1e-4)
        try:
            uniform(ctx, srv, rng, nsess=6, nops=40 if quick else 80, salt=salt + 8)
            private(ctx, srv, rng, nsess=6, nops=12 if quick else 30, salt=salt + 11)      # lost updates need the window inside the store
            if not quick:
                for m in range(10):
                    if ctx.expired():
                        break
                    mixed(ctx, srv, rng, nsess=rng.choice([2, 3, 4]), nops=rng.choice([3, 5]), tagno=m, salt=salt + 9)
        finally:
            srv.stop()
        account(ctx, srv)


def replay(ctx, witness):
    from vlib import lincheck
    if witness.get('workload') == 'mixed':
        verdict, info = lincheck.check(witness['history'], [0, 0, 0, 0])
        if verdict == 'violation':
            ctx.violation('history-not-linearizable', 'recorded history re-checked: %r' % (info,), witness)
        ctx.case(('replay',))
    else:
        ctx.inconclusive_because('schedules cannot be replayed; the recorded history is the witness')

import sys, time, threading, socket, logging
from cpppo.server.enip import client
from cpppo.server.enip.main import main as enip_main
from cpppo.dotdict import dotdict, apidict
logging.disable(logging.CRITICAL)
ctl = apidict( 2.0, {'done': False} )
kw = dict( argv=['-a','localhost:0','--no-config','A=INT[10]'], server={'control': ctl} )
t = threading.Thread( target=enip_main, kwargs=kw, daemon=True ); t.start()
while 'address' not in ctl: time.sleep(.01)
addr = ctl['address']
# relay that cuts server->client stream after N bytes
def relay( cut ):
    ls = socket.socket(); ls.bind(('127.0.0.1',0)); ls.listen(1)
    def run():
        c,_ = ls.accept(); s = socket.create_connection( addr )
        sent = [0]
        def up():
            try:
                while True:
                    d = c.recv(4096)
                    if not d: break
                    s.sendall(d)
            except Exception: pass
        threading.Thread(target=up,daemon=True).start()
        try:
            while True:
                d = s.recv(4096)
                if not d: break
                room = cut - sent[0]
                if room <= 0: break
                c.sendall(d[:room]); sent[0]+=len(d[:room])
                if sent[0] >= cut: break
        except Exception: pass
        time.sleep(0.05)
        c.close(); s.close(); ls.close()
    threading.Thread(target=run,daemon=True).start()
    return ls.getsockname()
# Register reply is 28 bytes. each read reply of 1 INT: 24 + 16 + ... measure
for mode in ('sync','pipe'):
  for cut in (28, 28+10, 28+24, 28+46, 28+2*46, 28+2*46+5):
    ra = relay( cut )
    res=[]; exc=None
    try:
        with client.connector( host=ra[0], port=ra[1], timeout=1.0 ) as c:
            ops = client.parse_operations( ['A[0]','A[1]','A[2]','A[3]'] )
            it = c.synchronous( operations=ops, timeout=1.0 ) if mode=='sync' else c.pipeline( operations=ops, depth=2, timeout=1.0 )
            for idx,dsc,req,rpy,sts,val in it:
                res.append( (idx,val) )
    except Exception as e:
        exc = repr(e)[:80]
    print( mode, cut, res, exc )
ctl['done']=True

"""C16 -- dotdict behaves as a tree of nested mappings addressed by dotted paths.

History + executable model: every generated operation is applied to a real cpppo.dotdict and to a
plain nested-dict model with its own path resolver; after every operation the whole real tree is
walked at dict level (not through the dotdict API) and compared, and the API views (lookup, in, get,
iteration, attribute form) are cross-checked against the model.
"""
from __future__ import annotations
import copy, itertools

PROPERTY = 'C16'
META = {
    'level': 'exploration',
    'technique': 'model-based runtime monitor: operation histories applied to the real dotdict and to a nested-dict reference model, full-tree and API-view comparison after every operation',
    'text': 'Back-tracking detours may pop indexed terms behind earlier indexed terms, and an existing level obtained by lookup is assigned again under a second name (the reference tree shares the object). Generated histories of set/get/in/del/pop/setdefault/update/iterate/copy by dotted path, attribute and index form run against '
            'the real dotdict; after every operation the real object is walked with dict-level access and compared with an independent '
            'nested-dict model, and lookup / membership / get / key-item-value iteration / attribute access are cross-checked for every probe path. '
            'All histories of <=2 (quick) or <=3 (thorough) mutators over a small path/value alphabet are enumerated completely; longer seeded histories '
            'add depth, ".." back-tracking, indexed list elements, plain-dict conversion, reserved names at every position and copies.',
    'note': 'Trusts the ~150-line model. Leniencies (stated in DESIGN.md): an empty level may or may not be listed by iteration; deleting/popping through an '
            'indexed segment may either be refused or work; any of KeyError/AttributeError/IndexError/TypeError/NameError counts as refusal; copy.copy is only '
            'required to be independent at levels not reached through a list.',
}
LEVEL = META['level']
RULE = ('a case = one operation history (sequence of mutators with full observation after each); enumerated completely for short histories over a '
        'small alphabet, seeded random for long ones; distinct by the tuple of operations; non-trivial = at least one mutator was accepted and '
        'at least one probe lookup succeeded')
ASSUMPTIONS = ['values are ints/None/lists/plain dicts/lists of dotdicts (strings are avoided as values: indexing a str with [i] legitimately succeeds)',
               'paths use integer indexes only; trailing dots are not generated']
REQUIRED = ['value:existing-level-assigned-again', 'op:set:accepted', 'op:set:refused', 'op:del:accepted', 'op:del:refused-nonempty-level', 'op:pop:accepted',
            'reserved:leaf', 'reserved:interior', 'path:dotdot', 'path:indexed', 'path:leading-dot', 'iter:list-of-levels',
            'copy:copy', 'copy:deepcopy', 'value:plain-dict-converted', 'form:attribute', 'form:index-chain', 'monitor:tree-compare',
            'monitor:iteration', 'monitor:lookup']
TIMEOUT = {'quick': 300, 'thorough': 1800}
SOFT = {'quick': 30, 'thorough': 420}

RESERVED = ('clear', 'copy', 'get', 'set', 'items', 'iteritems', 'iterkeys', 'itervalues', 'listitems', 'listkeys',
            'listvalues', 'keys', 'values', 'pop', 'popitem', 'setdefault', 'update')
REFUSALS = (KeyError, AttributeError, IndexError, TypeError, NameError)


def shards(tier):
    return 4 if tier == 'quick' else 16


def doubled_form(path):
    """Classifier for the known finding only (not part of the oracle): after the textual '..' reduction the key is a single
    segment preceded by one '.', the form that the real resolver turns into name.name."""
    if not isinstance(path, str):
        return False
    mine = path
    while '..' in mine:
        front, back = mine.split('..', 1)
        trunc = front[:max(0, front.rfind('.'))]
        mine = trunc + ('.' if (trunc and back) else '') + back
    return mine.startswith('.') and '.' not in mine[1:] and len(mine) > 1


KNOWN_DOUBLED = 'leading-dot-single-segment-resolves-doubled'


class Refused(Exception):
    pass


class Either(Exception):
    """The statement does not determine the outcome (see leniencies)."""


# ---------------------------------------------------------------- model
def tokens(path):
    """Independent path resolver: '..' pops one level per extra dot (purely textual), leading '.' ignored,
    'name[i]' -> (name, i)."""
    toks = path.split('.')
    stack = []
    for i, t in enumerate(toks):
        if t == '':
            if i == 0:
                continue
            if stack:
                stack.pop()
            continue
        stack.append(t)
    if not stack:
        raise Refused('empty path')
    segs = []
    for t in stack:
        if '[' in t:
            name, rest = t.split('[', 1)
            assert rest.endswith(']')
            segs.append((name, int(rest[:-1].strip())))
        else:
            segs.append((t, None))
    return segs


def is_reserved(name):
    return name in RESERVED or name.startswith('__')


def is_level(v):
    return isinstance(v, dict)


def m_index(lst, idx):
    if not isinstance(lst, list):
        raise Refused('not a list')
    if not -len(lst) <= idx < len(lst):
        raise Refused('index')
    return lst[idx]


def m_get(root, segs):
    cur = root
    for name, idx in segs:
        if not is_level(cur) or name not in cur:
            raise Refused('missing')
        cur = cur[name]
        if idx is not None:
            cur = m_index(cur, idx)
    return cur


def m_value(spec, root=None):
    """Build the model value for a value spec; plain dicts become levels via sequential path assignment."""
    kind = spec[0]
    if kind == 'ref':
        # the object already stored at another path (a level obtained by lookup and assigned a second time): the SAME object, so
        # that later changes through either path are seen through both, as in the real tree
        return m_get(root, tokens(spec[1]))
    if kind == 'int':
        return spec[1]
    if kind == 'none':
        return None
    if kind == 'ilist':
        return list(spec[1])
    if kind == 'dict':
        lvl = {}
        for k, v in spec[1]:
            m_set(lvl, tokens(k), v)
        return lvl
    if kind == 'llist':
        return [m_value(('dict', d)) for d in spec[1]]
    raise AssertionError(spec)


def r_value(spec, dotdict):
    kind = spec[0]
    if kind == 'int':
        return spec[1]
    if kind == 'none':
        return None
    if kind == 'ilist':
        return list(spec[1])
    if kind == 'dict':
        return {k: r_value(v, dotdict) for k, v in spec[1]}        # a PLAIN dict: the tree must convert it
    if kind == 'llist':
        return [dotdict(r_value(('dict', d), dotdict)) for d in spec[1]]
    raise AssertionError(spec)


def m_set(root, segs, spec):
    cur = root
    for name, idx in segs[:-1]:
        if idx is None:
            if is_reserved(name):
                raise Refused('reserved interior')
            if name not in cur:
                cur[name] = {}
            nxt = cur[name]
        else:
            if name not in cur:
                raise Refused('indexed path must pre-exist')
            nxt = m_index(cur[name], idx)
        if not is_level(nxt):
            raise Refused('not a level')
        cur = nxt
    name, idx = segs[-1]
    val = m_value(spec, root)       # may raise Refused (reserved key inside a plain dict)
    if idx is None:
        if is_reserved(name):
            raise Refused('reserved leaf')
        cur[name] = val
    else:
        if name not in cur:
            raise Refused('missing list')
        lst = cur[name]
        m_index(lst, idx)
        lst[idx] = val


def m_del(root, segs):
    parent = m_get(root, segs[:-1]) if len(segs) > 1 else root
    name, idx = segs[-1]
    if not is_level(parent) or name not in parent:
        raise Refused('missing')
    if idx is not None:
        m_index(parent[name], idx)
        raise Either()
    v = parent[name]
    if is_level(v) and len(v):
        raise Refused('non-empty level')
    del parent[name]


def m_pop(root, segs, has_default):
    if any(idx is not None for _, idx in segs):
        raise Either()
    cur = root
    for name, _ in segs[:-1]:
        if name not in cur:
            if has_default:
                raise Either()
            raise Refused('missing')
        cur = cur[name]
        if not is_level(cur):
            raise Refused('not a level')
    name = segs[-1][0]
    if name not in cur:
        if has_default:
            return 'DEFAULT'
        raise Refused('missing')
    return cur.pop(name)


def m_leaves(level, prefix=''):
    """(required leaf paths -> value, optional paths (empty levels))"""
    req, opt = {}, set()
    for k, v in level.items():
        p = prefix + k
        if is_level(v):
            if v:
                r, o = m_leaves(v, p + '.')
                req.update(r)
                opt |= o
            else:
                opt.add(p)
        elif isinstance(v, list) and v and all(is_level(e) for e in v):
            for i, e in enumerate(v):
                r, o = m_leaves(e, '%s[%d].' % (p, i))
                req.update(r)
                # empty levels nested below a list element are listed by the real iteration the same way
                opt |= o
        else:
            req[p] = v
    return req, opt


def m_paths(level, prefix='', out=None):
    """every addressable path of the model (interior and leaf)"""
    out = [] if out is None else out
    for k, v in level.items():
        p = prefix + k
        out.append(p)
        if is_level(v):
            m_paths(v, p + '.', out)
        elif isinstance(v, list):
            for i, e in enumerate(v):
                out.append('%s[%d]' % (p, i))
                if is_level(e):
                    m_paths(e, '%s[%d].' % (p, i), out)
    return out


# ---------------------------------------------------------------- real-object access
def plain(real, dotdict_base):
    """dict-level walk of the real object (never through the dotdict API); levels tagged 'L', plain dicts 'D'."""
    if isinstance(real, dotdict_base):
        return ('L', {k: plain(v, dotdict_base) for k, v in dict.items(real)})
    if isinstance(real, dict):
        return ('D', {k: plain(v, dotdict_base) for k, v in real.items()})
    if isinstance(real, list):
        return ('l', [plain(v, dotdict_base) for v in real])
    return ('v', real)


def plain_model(m):
    if isinstance(m, dict):
        return ('L', {k: plain_model(v) for k, v in m.items()})
    if isinstance(m, list):
        return ('l', [plain_model(v) for v in m])
    return ('v', m)


def same(real_value, model_value, dotdict_base):
    return plain(real_value, dotdict_base) == plain_model(model_value)


# ---------------------------------------------------------------- one history
class History:
    def __init__(self, ctx, ops, probes=()):
        from cpppo.dotdict import dotdict, dotdict_base
        self.ctx, self.ops = ctx, ops
        self.dotdict, self.base = dotdict, dotdict_base
        self.real = dotdict()
        self.model = {}
        self.probes = list(probes)
        self.accepted = 0
        self.lookups_ok = 0
        self.failed = False

    def viol(self, key, what, step, path=None, fatal=True):
        op = self.ops[step]
        paths = [path] if path is not None else [op[1]] if isinstance(op[1], str) else [k for k, _ in op[1][1]]
        if any(doubled_form(p) for p in paths):
            key = KNOWN_DOUBLED
        if fatal:
            self.failed = True
        self.ctx.violation(key, what, {'ops': self.ops, 'step': step, 'probes': self.probes})

    def run(self):
        for step, op in enumerate(self.ops):
            self.apply(step, op)
            if self.failed:
                return
            self.observe(step)
            if self.failed:
                return

    # -- apply one operation to both
    def apply(self, step, op):
        ctx = self.ctx
        kind = op[0]
        before = copy.deepcopy(self.model)
        if kind in ('set', 'setattr', 'setchain', 'setidx', 'setdefault', 'set_method'):
            path, spec = op[1], op[2]
            exp = self._model_do(lambda: m_set(self.model, tokens(path), spec))
            if kind == 'setdefault':
                # only assigns when the path is absent
                self.model = before
                try:
                    m_get(self.model, tokens(path))
                    exp = 'ok-present'
                except Refused:
                    exp = self._model_do(lambda: m_set(self.model, tokens(path), spec))
            val = r_value(spec, self.dotdict)
            got = self._real_do(lambda: self._real_set(kind, path, val))
            self._classify_set(path, spec, exp)
            self._compare_outcome(step, op, exp, got, before)
        elif kind == 'del':
            path = op[1]
            exp = self._model_do(lambda: m_del(self.model, tokens(path)))
            got = self._real_do(lambda: self.real.__delitem__(path))
            if exp[0] == 'refused' and exp[1] == 'non-empty level':
                ctx.count('op:del:refused-nonempty-level')
            self._compare_outcome(step, op, exp, got, before)
        elif kind == 'pop':
            path, has_default = op[1], op[2]
            exp = self._model_do(lambda: m_pop(self.model, tokens(path), has_default))
            args = (path, 'DEFAULT') if has_default else (path,)
            got = self._real_do(lambda: self.real.pop(*args))
            self._compare_outcome(step, op, exp, got, before, returns=True)
        elif kind == 'update':
            spec = op[1]
            def mupd():
                for k, v in spec[1]:
                    m_set(self.model, tokens(k), v)
            exp = self._model_do(mupd)
            got = self._real_do(lambda: self.real.update(r_value(spec, self.dotdict)))
            self._compare_outcome(step, op, exp, got, before)
        elif kind == 'alias':
            dst, src = op[1], op[2]
            exp = self._model_do(lambda: m_set(self.model, tokens(dst), ('ref', src)))
            got = self._real_do(lambda: self.real.__setitem__(dst, self.real[src]))
            if exp[0] == 'ok':
                ctx.count('value:existing-level-assigned-again')
            self._compare_outcome(step, op, exp, got, before)
        elif kind in ('copy', 'deepcopy'):
            self._copy_check(step, op)
        else:
            raise AssertionError(op)
        ctx.count('ops')

    def _classify_set(self, path, spec, exp):
        ctx = self.ctx
        try:
            segs = tokens(path)
        except Refused:
            return
        names = [n for n, _ in segs]
        if is_reserved(names[-1]) and segs[-1][1] is None:
            ctx.count('reserved:leaf')
        if any(is_reserved(n) for n in names[:-1]):
            ctx.count('reserved:interior')
        if '..' in path:
            ctx.count('path:dotdot')
        if '[' in path:
            ctx.count('path:indexed')
        if path.startswith('.') and not path.startswith('..'):
            ctx.count('path:leading-dot')
        if spec[0] == 'dict' and exp[0] == 'ok':
            ctx.count('value:plain-dict-converted')

    def _model_do(self, fn):
        try:
            r = fn()
            return ('ok', r)
        except Refused as e:
            return ('refused', str(e))
        except Either:
            return ('either', None)

    def _real_do(self, fn):
        try:
            return ('ok', fn())
        except REFUSALS as e:
            return ('refused', type(e).__name__ + ': ' + str(e)[:80])
        except Exception as e:          # anything else is not a refusal
            return ('error', type(e).__name__ + ': ' + str(e)[:120])

    def _real_set(self, kind, path, val):
        d = self.real
        if kind == 'set':
            d[path] = val
        elif kind == 'set_method':
            d.set(path, val)
        elif kind == 'setattr':
            setattr(d, path, val)
            self.ctx.count('form:attribute')
        elif kind == 'setdefault':
            return d.setdefault(path, val)
        elif kind == 'setchain':        # d.a.b = v   (attribute chain; interior must exist)
            names = path.split('.')
            cur = d
            for n in names[:-1]:
                cur = getattr(cur, n)
            setattr(cur, names[-1], val)
            self.ctx.count('form:attribute')
        elif kind == 'setidx':          # d['a']['b'] = v
            names = path.split('.')
            cur = d
            for n in names[:-1]:
                cur = cur[n]
            cur[names[-1]] = val
            self.ctx.count('form:index-chain')

    def _compare_outcome(self, step, op, exp, got, before, returns=False):
        ctx = self.ctx
        kind = op[0]
        name = {'setattr': 'set', 'setchain': 'set', 'setidx': 'set', 'set_method': 'set', 'setdefault': 'set', 'update': 'set'}.get(kind, kind)
        if got[0] == 'error':
            return self.viol('unexpected-exception', '%r raised %s' % (op, got[1]), step)
        if kind in ('setchain', 'setidx') and exp[0] != 'either':
            # chain forms do not create interior levels: if the interior path is absent the model must not create it either
            names = op[1].split('.')
            try:
                parent = m_get(before, [(n, None) for n in names[:-1]]) if len(names) > 1 else before
                if not is_level(parent):
                    raise Refused('not level')
            except Refused:
                self.model = before
                exp = ('refused', 'chain interior missing')
        if exp[0] == 'either':
            # outcome not determined by the statement: adopt what the real object did, but it must be one of the two
            if got[0] == 'refused':
                self.model = before
            elif kind == 'pop' and isinstance(got[1], str) and got[1] == 'DEFAULT':
                self.model = before
            else:
                self._adopt_either(op)
            ctx.count('op:%s:either' % name)
            return
        if exp[0] in ('ok', 'ok-present') and got[0] == 'refused':
            return self.viol('valid-operation-refused', '%r refused by dotdict (%s) but valid in the tree model' % (op, got[1]), step)
        if exp[0] == 'refused' and got[0] == 'ok':
            segs = None
            try:
                segs = tokens(op[1]) if isinstance(op[1], str) else None
            except Refused:
                pass
            if exp[1] == 'reserved interior':
                return self.viol('reserved-name-accepted-interior',
                                 '%r accepted although an interior path segment is a reserved method name' % (op,), step)
            if exp[1] == 'reserved leaf':
                return self.viol('reserved-name-accepted-leaf', '%r accepted although the key is a reserved method name' % (op,), step)
            if exp[1] == 'non-empty level':
                return self.viol('nonempty-level-deleted', '%r deleted a non-empty level' % (op,), step)
            return self.viol('invalid-operation-accepted', '%r accepted by dotdict but refused by the tree model (%s)' % (op, exp[1]), step)
        if exp[0] in ('ok', 'ok-present'):
            self.accepted += 1
            ctx.count('op:%s:accepted' % name)
            if returns and exp[0] == 'ok':
                if not same(got[1], exp[1], self.base):
                    return self.viol('pop-returns-wrong-value', '%r returned %r, model %r' % (op, got[1], exp[1]), step)
            if kind == 'setdefault':
                want = m_get(self.model, tokens(op[1]))
                if not same(got[1], want, self.base):
                    return self.viol('setdefault-returns-wrong-value', '%r returned %r, model %r' % (op, got[1], want), step)
        else:
            ctx.count('op:%s:refused' % name)

    def _adopt_either(self, op):
        kind = op[0]
        segs = tokens(op[1])
        if kind == 'del':
            parent = m_get(self.model, segs[:-1]) if len(segs) > 1 else self.model
            name, idx = segs[-1]
            del parent[name][idx]
        elif kind == 'pop':
            # real popped something (or returned the default): model follows by recomputing from the real tree
            try:
                parent = m_get(self.model, segs[:-1]) if len(segs) > 1 else self.model
                name, idx = segs[-1]
                if idx is None and is_level(parent):
                    parent.pop(name, None)
                elif idx is not None:
                    parent[name].pop(idx)
            except Refused:
                pass

    def _copy_check(self, step, op):
        ctx = self.ctx
        kind, mpath, mspec = op
        fn = copy.copy if kind == 'copy' else copy.deepcopy
        try:
            c = fn(self.real)
        except Exception as e:
            return self.viol('copy-raises', '%s raised %r' % (kind, e), step)
        if type(c) is not type(self.real):
            return self.viol('copy-wrong-type', '%s returned %r' % (kind, type(c)), step)
        if plain(c, self.base) != plain(self.real, self.base):
            return self.viol('copy-differs', '%s is not equal to the original' % kind, step)
        snap = plain(self.real, self.base)
        through_list = '[' in mpath
        changed = False
        if kind == 'deepcopy' or not through_list:      # a shallow copy legitimately shares lists
            try:
                c[mpath] = r_value(mspec, self.dotdict)
                changed = True
            except REFUSALS:
                changed = False
        if changed and (kind == 'deepcopy' or not through_list):
            if plain(self.real, self.base) != snap:
                return self.viol('copy-shares-structure',
                                 'assigning %r in a %s changed the original' % (mpath, kind), step)
        # and the other direction: mutate the original (through the model too), the copy must keep its state
        csnap = plain(c, self.base)
        self.ctx.count('copy:' + kind)
        if changed:
            self.ctx.count('copy:mutated-' + kind)
        # restore: nothing to do, the copy is discarded
        del c, csnap

    # -- observation after every operation
    def observe(self, step):
        ctx = self.ctx
        real, model = self.real, self.model
        # 1. whole tree, dict-level walk
        ctx.count('monitor:tree-compare')
        pr, pm = plain(real, self.base), plain_model(model)
        if pr != pm:
            key = 'tree-differs'
            if "'D'" in repr(pr):
                key = 'plain-dict-not-converted'
            return self.viol(key, 'after %r: real tree %r != model tree %r' % (self.ops[step], pr, pm), step)
        # 2. lookup / membership / get for every probe path and every existing path
        existing = m_paths(model)
        for p in self.probes + existing:
            ctx.count('monitor:lookup')
            try:
                want = ('ok', m_get(model, tokens(p)))
            except Refused:
                want = ('refused', None)
            got = self._real_do(lambda: real[p])
            if doubled_form(p):
                # known finding: judged, reported under its own mechanism key, but the history goes on
                if want[0] != got[0] or (want[0] == 'ok' and not same(got[1], want[1], self.base)):
                    self.viol('lookup-disagrees', 'lookup %r -> %s, tree model says %s' % (p, got[0], want[0]), step, path=p, fatal=False)
                continue
            if got[0] == 'error':
                return self.viol('unexpected-exception', 'lookup %r raised %s' % (p, got[1]), step)
            if want[0] != got[0]:
                return self.viol('lookup-disagrees', 'after %r: lookup %r -> %s, tree model says %s' % (
                    self.ops[step], p, got[0], want[0]), step)
            if want[0] == 'ok':
                self.lookups_ok += 1
                if not same(got[1], want[1], self.base):
                    return self.viol('lookup-wrong-value', 'lookup %r -> %r, model %r' % (p, got[1], want[1]), step)
            # membership agrees with lookup
            try:
                mem = p in real
            except REFUSALS:
                mem = False
                ctx.count('in:raised-instead-of-false')
            if mem != (got[0] == 'ok'):
                return self.viol('membership-disagrees-with-lookup', 'after %r: %r in d -> %r but lookup %s' % (
                    self.ops[step], p, mem, got[0]), step)
            try:
                g = real.get(p, KeyError)
            except REFUSALS:
                g = KeyError
            if (g is not KeyError) != (got[0] == 'ok') or (got[0] == 'ok' and not same(g, want[1], self.base)):
                return self.viol('get-disagrees-with-lookup', 'd.get(%r) -> %r but lookup %s' % (p, g, got), step)
            # attribute form for simple names
            if p.isidentifier() and not is_reserved(p):
                ha = hasattr(real, p)
                if ha != (got[0] == 'ok'):
                    return self.viol('attribute-disagrees-with-lookup', 'hasattr(d,%r) -> %r but lookup %s' % (p, ha, got[0]), step)
        # 3. iteration lists exactly the leaf paths
        ctx.count('monitor:iteration')
        req, opt = m_leaves(model)
        try:
            items = list(real.items())
            keys = list(real.keys())
            itk = list(iter(real))
            vals = list(real.values())
        except Exception as e:
            return self.viol('iteration-raises', 'iteration raised %r' % (e,), step)
        if keys != [k for k, _ in items] or itk != keys or len(vals) != len(items):
            return self.viol('iteration-views-disagree', 'keys %r items %r iter %r' % (keys, items, itk), step)
        normkeys = [k.replace(' ', '') for k in keys]
        if len(set(normkeys)) != len(normkeys):
            return self.viol('iteration-duplicates', 'keys %r' % (keys,), step)
        missing = set(req) - set(normkeys)
        extra = set(normkeys) - set(req) - opt
        if missing or extra:
            return self.viol('iteration-not-leaf-paths', 'after %r: keys %r; missing leaves %r; not leaves %r' % (
                self.ops[step], keys, sorted(missing), sorted(extra)), step)
        if any('[' in k for k in keys):
            ctx.count('iter:list-of-levels')
        for (k, v), v2 in zip(items, vals):
            try:
                lv = real[k]
            except Exception as e:
                return self.viol('listed-key-not-lookupable', 'listed key %r raises %r' % (k, e), step)
            if not (lv is v or lv == v) or not (v2 is v or v2 == v):
                return self.viol('listed-key-wrong-value', 'listed %r -> %r but lookup gives %r' % (k, v, lv), step)
            nk = k.replace(' ', '')
            if nk in req and not same(v, req[nk], self.base):
                return self.viol('listed-key-wrong-value', 'listed %r -> %r, model %r' % (k, v, req[nk]), step)


# ---------------------------------------------------------------- workload
NAMES = ['a', 'b', 'c']


def small_alphabet(tier):
    paths = ['a', 'b', 'a.a', 'a.b', 'b.a', '.a', 'a.b..a', 'a[0]', 'a[0].b', 'keys', 'a.keys', 'keys.a', 'a.b.c']
    vals = [('int', 1), ('dict', ()), ('dict', (('b', ('int', 2)),)), ('llist', ((('b', ('int', 3)),),)), ('ilist', (7, 8))]
    muts = []
    for p in paths:
        for v in vals:
            muts.append(('set', p, v))
        muts.append(('del', p))
        muts.append(('pop', p, False))
    muts.append(('pop', 'a.b', True))
    muts.append(('setdefault', 'a.b', ('int', 5)))
    muts.append(('setdefault', 'a', ('dict', ())))
    muts.append(('update', ('dict', (('a.b', ('int', 6)), ('c', ('int', 7))))))
    muts.append(('copy', 'a.b', ('int', 9)))
    muts.append(('deepcopy', 'a[0].b', ('int', 9)))
    return muts, paths + ['a..a', 'b.b', 'c', 'a.c', 'a[0].a', 'a[1]', 'a[1].b', 'x']


def safe_dict(rng, depth):
    """items of a mapping that is certainly valid (the harness itself builds a dotdict from it for list elements)"""
    items = {}
    for _ in range(rng.randrange(0, 3)):
        k = rng.choice(NAMES)
        r = rng.random()
        if r < 0.7 or depth >= 2:
            items[k] = ('int', rng.randrange(9))
        elif r < 0.85:
            items[k] = ('dict', safe_dict(rng, depth + 1))
        else:
            items[k] = ('llist', tuple(safe_dict(rng, depth + 2) for _ in range(rng.randrange(1, 3))))
    return tuple(items.items())


def rand_value(rng, depth=0):
    r = rng.random()
    if r < 0.35:
        return ('int', rng.randrange(100))
    if r < 0.42:
        return ('none',)
    if r < 0.5:
        return ('ilist', tuple(rng.randrange(9) for _ in range(rng.randrange(0, 4))))
    if r < 0.8 and depth < 3:
        n = rng.randrange(0, 4)
        items = {}
        for _ in range(n):
            k = rng.choice(NAMES + ['d1', 'x_y'])
            if rng.random() < 0.15:
                k = k + '.' + rng.choice(NAMES)
            if rng.random() < 0.04:
                k = rng.choice(RESERVED)
            items[k] = rand_value(rng, depth + 1)
        return ('dict', tuple(items.items()))
    if depth < 2:
        n = rng.choice([1, 2, 3, 11]) if rng.random() < 0.9 else 0
        if n == 0:
            return ('ilist', ())
        els = []
        for _ in range(n):
            els.append(safe_dict(rng, 0))
        return ('llist', tuple(els))
    return ('int', rng.randrange(100))


def rand_path(rng, model, allow_reserved=True):
    """Mostly paths near what exists (so they collide), decorated with '..', leading dots, indexes."""
    existing = m_paths(model)
    r = rng.random()
    if existing and r < 0.55:
        p = rng.choice(existing)
        if rng.random() < 0.5:
            p = p + '.' + rng.choice(NAMES)
    else:
        depth = rng.choice([1, 1, 2, 2, 3, 4, 6])
        p = '.'.join(rng.choice(NAMES) for _ in range(depth))
    segs = p.split('.')
    if rng.random() < 0.12:
        i = rng.randrange(len(segs))
        segs[i] = segs[i].split('[')[0] + '[%d]' % rng.choice([0, 0, 1, 2, -1, 3])
    if allow_reserved and rng.random() < 0.08:
        i = rng.randrange(len(segs))
        segs[i] = rng.choice(RESERVED + ('__len__', '__x'))
    if rng.random() < 0.15:
        # insert a detour that back-tracks: a.X..b  or a.X.Y...b
        i = rng.randrange(len(segs))
        k = rng.choice([1, 1, 2, 3])
        detour = [rng.choice(NAMES + ['zz']) + ('[%d]' % rng.choice([0, 1, 2]) if rng.random() < 0.4 else '') for _ in range(k)]      # the popped terms may be indexed too
        if rng.random() < 0.3:
            j = rng.randrange(i + 1)
            if '[' not in segs[j]:
                segs[j] = segs[j] + '[%d]' % rng.choice([0, 0, 1])        # ... behind an earlier indexed term
        segs = segs[:i + 1] + detour + [''] * k + segs[i + 1:]
        if segs[-1] == '':      # would end with dots: add a final name
            segs.append(rng.choice(NAMES))
    p = '.'.join(segs)
    if rng.random() < 0.07:
        p = '.' + p
    if rng.random() < 0.02:
        p = '..' + p
    return p


def rand_history(rng, n):
    """Generates operations against a scratch model so that paths relate to the evolving tree."""
    model = {}
    ops = []
    aliased = False
    for _ in range(n):
        r = rng.random()
        p = rand_path(rng, model)
        if rng.random() < 0.06:
            # a level that exists, assigned a second time under a new top-level name (the same object at two paths)
            levels = sorted(set(q.rsplit('.', 1)[0] for q in m_paths(model) if '.' in q and '[' not in q and not q.startswith('al')))
            if levels:
                op = ('alias', 'al%d' % rng.randrange(3), rng.choice(levels))
                ops.append(op)
                aliased = True
                try:
                    m_set(model, tokens(op[1]), ('ref', op[2]))
                except (Refused, Either, AssertionError, ValueError):
                    pass
                continue
        simple = all(s.isidentifier() for s in p.split('.'))
        if r < 0.45:
            kind = 'set'
            rr = rng.random()
            if rr < 0.1:
                kind = 'setattr'
            elif rr < 0.2 and simple:
                kind = 'setchain'
            elif rr < 0.3 and simple:
                kind = 'setidx'
            elif rr < 0.35:
                kind = 'set_method'
            op = (kind, p, rand_value(rng))
        elif r < 0.6:
            op = ('del', p)
        elif r < 0.72:
            op = ('pop', p, rng.random() < 0.3)
        elif r < 0.8:
            op = ('setdefault', p, rand_value(rng))
        elif r < 0.86:
            v = rand_value(rng)
            while v[0] != 'dict':
                v = rand_value(rng)
            op = ('update', v)
        elif aliased:
            op = ('set', p, rand_value(rng))          # copies of trees with shared levels are not modelled
        elif r < 0.93:
            op = ('copy', rand_path(rng, model, False), rand_value(rng))
        else:
            op = ('deepcopy', rand_path(rng, model, False), rand_value(rng))
        ops.append(op)
        # keep the scratch model roughly in step (errors ignored)
        try:
            if op[0] in ('set', 'setattr', 'set_method', 'setchain', 'setidx', 'setdefault'):
                m_set(model, tokens(p), op[2])
            elif op[0] == 'del':
                m_del(model, tokens(p))
            elif op[0] == 'pop':
                m_pop(model, tokens(p), op[2])
        except (Refused, Either, AssertionError, ValueError):
            pass
    return ops


def run_history(ctx, ops, probes):
    h = History(ctx, ops, probes)
    try:
        h.run()
    except (AssertionError, ValueError) as e:
        # generator produced something the model's own resolver cannot express: not judged
        ctx.count('skipped:unmodelled-path')
        return h
    return h


def run(ctx):
    quick = ctx.tier == 'quick'
    muts, probes = small_alphabet(ctx.tier)
    # exhaustive short histories
    ctx.exhaustive = True
    maxlen = 2 if quick else 3
    n = 0
    for L in range(1, maxlen + 1):
        for ops in itertools.product(muts, repeat=L):
            n += 1
            if n % ctx.nshards != ctx.shard:
                continue
            if L == 3 and ctx.expired():
                ctx.exhaustive = False
                ctx.notes.append('length-3 enumeration stopped at the soft budget after %d histories' % n)
                break
            h = run_history(ctx, list(ops), probes)
            ctx.enumerated(1)
            if h.accepted and h.lookups_ok:
                ctx.count('histories:nontrivial')
            if ctx.want_sample() and n % 3001 == 0:
                ctx.sample({'history': list(ops), 'final_keys': sorted(h.real.keys())})
    # seeded long histories
    rng = ctx.rng
    rounds = 500 if quick else 1000000
    for i in range(rounds):
        if ctx.expired():
            break
        ops = rand_history(rng, rng.choice([5, 10, 20, 40, 60]))
        extra = [rand_path(rng, {}) for _ in range(6)]
        h = run_history(ctx, ops, probes + extra)
        ctx.case(('rand', tuple(ops)), nontrivial=bool(h.accepted and h.lookups_ok))
        ctx.count('histories:random')
        if ctx.want_sample() and i % 40 == 3:
            ctx.sample({'history': ops[:8], 'final_keys': sorted(h.real.keys())[:12]})


def _tuplify(o):
    if isinstance(o, list):
        return tuple(_tuplify(x) for x in o)
    return o


def replay(ctx, witness):
    ops = [_tuplify(op) for op in witness['ops']]
    run_history(ctx, ops, list(witness.get('probes', [])))
    ctx.case(('replay',))

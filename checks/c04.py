"""C04 -- fragmented transfers reassemble exactly and every fragment makes progress.

The harness plays the client of a fragmented transfer against the real simulator (in-process frame
pipeline, requests and replies on the wire format, encoded/decoded by vlib/refcodec.py) and checks
arithmetic invariants on the recorded fragment sequence plus equality with the array model.
"""
from __future__ import annotations
import struct

PROPERTY = 'C04'
META = {
    'level': 'exploration',
    'technique': 'runtime monitor on recorded fragment sequences (progress, size bound, status discipline, reassembly == model), exhaustive over a scaled-down (element size, tag length, start, count, budget) space',
    'text': 'The same transfer shape (600 or 300 elements at the stock budget, reads and tiled writes) is run for pairs of equal-sized element types one after the other in one process, each order in a different shard. Writes also include values that compare equal to what is stored but encode differently (signed zeros over zeros), so that "stores exactly those values" is judged on the encoded value. With the reply budget Logix.MAX_BYTES set to B, every (element size 1/2/4/8 incl. BOOL/REAL/LREAL and a signed/unsigned pair, tag length N, start i, count n<=N-i, '
            'B in 1..3*size+1) is driven as a complete Read Tag Fragmented transfer: the harness advances the byte offset by the data received until status 0x00. Each reply must be 0x06 or '
            '0x00, carry >=1 whole element and <= ceil(B/size) elements, 0x00 exactly when the range is exhausted, at most n fragments, and the concatenation must equal the requested slice of '
            'the values written beforehand. Write Tag Fragmented: every two-piece tiling and seeded k-piece tilings (in order and shuffled) must store exactly the values and leave all other '
            'elements untouched. Large transfers at the default budget (tags up to 5000 elements) are added, also over TCP through the cpppo client in the thorough tier. '
            'The scaled-down space is enumerated completely.',
    'note': 'Requests travel as bytes through the real enip_machine / CIP / Logix parsers and logix.process (no sockets in the exhaustive part). String and UDT elements are outside the property.',
}
LEVEL = META['level']
RULE = ('a case = one complete fragmented transfer (read: type,N,i,n,B; write: type,N,i,n,tiling); enumerated completely in the scaled-down space, seeded for large transfers; '
        'distinct by that tuple; non-trivial = more than one fragment was needed or the range did not start at 0')
ASSUMPTIONS = ['Logix.MAX_BYTES is the documented user-alterable reply budget', 'Read Tag Fragmented is sent inside the 0x52 Unconnected Send wrapper (a bare 0x52 is parsed as the wrapper by design)']
REQUIRED = ['same-shape:transfers', 'write:equal-but-not-identical', 'read:transfers', 'read:multi-fragment', 'read:status-0x06', 'read:status-0x00', 'read:budget-smaller-than-element', 'write:tilings', 'write:shuffled',
            'monitor:reassembly', 'monitor:progress', 'monitor:untouched-elements', 'large:transfers']
TIMEOUT = {'quick': 300, 'thorough': 2400}
SOFT = {'quick': 35, 'thorough': 900}

TYPES_QUICK = ['SINT', 'UINT', 'LREAL']
TYPES_FULL = ['BOOL', 'SINT', 'USINT', 'INT', 'UINT', 'DINT', 'REAL', 'LINT', 'LREAL']


def shards(tier):
    return 4 if tier == 'quick' else 16


def distinct_values(tname, n, salt=0):
    from vlib import gen
    out = []
    for k in range(n):
        if tname == 'BOOL':
            out.append(bool((k + salt) % 2) if k % 3 else True)
        elif tname in ('REAL', 'LREAL'):
            # distinct, exactly representable in float32, and spread over signs and magnitudes (around 2**31 and 2**63, where integer
            # arithmetic on a float would show, and small fractions)
            e = (0, 31, -10, 63, 1, 40, 32, 64)[k % 8]
            out.append(float(((k + salt) % 2000 + 1) * 2.0 ** e) * (-1 if (k // 8 + salt) % 3 == 1 else 1))
        else:
            lo, hi = gen.INT_RANGES[tname]
            out.append(lo + (k * 37 + salt * 11 + 1) % (hi - lo + 1))
    return out


class Driver:
    def __init__(self, ctx, tname, N, budget):
        from vlib import simdrv, refcodec, arraymodel
        self.ctx, self.rc = ctx, refcodec
        self.tname, self.N, self.budget = tname, N, budget
        self.spec = [('T', tname, N, None)]
        self.sim = simdrv.Sim(self.spec, max_bytes=budget)
        self.model = arraymodel.Model(self.spec, budget=budget or 488)
        self.size = refcodec.size_of(tname)
        self.code = refcodec.NAME2CODE[tname]

    def close(self):
        self.sim.close()

    def request(self, req):
        rc = self.rc
        st, cip, out = self.sim.cip(rc.enc_request(req))
        if out != 'reply' or st != 0 or cip is None:
            return None, (st, out)
        return rc.dec_reply(cip), None

    def set_all(self, values):
        """initialise the tag through the front door (Write Tag Fragmented pieces small enough for any budget)"""
        step = 20
        for a in range(0, len(values), step):
            part = values[a:a + step]
            req = {'path': {'segment': [{'symbolic': 'T'}]}, 'write_frag': {'type': self.code, 'elements': len(values), 'offset': a * self.size, 'data': part}}
            rep, err = self.request(req)
            if rep is None or rep['status'] != 0:
                raise RuntimeError('initialisation write failed: %r %r' % (rep, err))
            self.model.apply(req)

    def read_transfer(self, i, n):
        """Plays the client.  Returns list of (status, [values]) fragments or a violation tuple."""
        ctx = self.ctx
        per = max(1, -(-self.budget // self.size))
        wit = {'type': self.tname, 'N': self.N, 'start': i, 'count': n, 'budget': self.budget}
        frags, got, offset = [], [], 0
        while True:
            req = {'path': {'segment': [{'symbolic': 'T'}, {'element': i}]}, 'read_frag': {'elements': n, 'offset': offset}}
            rep, err = self.request(req)
            if rep is None:
                return ctx.violation('fragment-request-not-answered', 'read_frag %r at offset %d: %r' % (wit, offset, err), dict(wit, offset=offset))
            st = rep['status']
            if st not in (0x00, 0x06):
                return ctx.violation('fragment-status-not-0x00-or-0x06', 'read_frag %r at offset %d: status 0x%02x %r after %d elements' % (
                    wit, offset, st, rep.get('status_ext'), len(got)), dict(wit, offset=offset, fragments=frags))
            data = rep['read_frag']['data']
            if rep['read_frag']['type'] != self.code:
                return ctx.violation('fragment-wrong-type', 'reply type 0x%x, tag type 0x%x' % (rep['read_frag']['type'], self.code), wit)
            frags.append((st, len(data)))
            ctx.count('monitor:progress')
            if len(data) < 1:
                return ctx.violation('fragment-without-progress', 'read_frag %r at offset %d returned no element' % (wit, offset), dict(wit, fragments=frags))
            if len(data) > per:
                return ctx.violation('fragment-exceeds-budget', 'read_frag %r at offset %d returned %d elements, budget %d bytes allows %d' % (
                    wit, offset, len(data), self.budget, per), dict(wit, fragments=frags))
            got.extend(data)
            offset += len(data) * self.size
            if len(got) > n:
                return ctx.violation('fragments-exceed-request', 'read_frag %r returned %d elements in total' % (wit, len(got)), dict(wit, fragments=frags))
            done = len(got) == n
            if st == 0x00 and not done:
                return ctx.violation('final-status-before-end', 'read_frag %r: status 0x00 after %d of %d elements' % (wit, len(got), n), dict(wit, fragments=frags))
            if st == 0x06 and done:
                return ctx.violation('more-status-at-end', 'read_frag %r: status 0x06 although all %d elements were delivered' % (wit, n), dict(wit, fragments=frags))
            if st == 0x06:
                ctx.count('read:status-0x06')
            if done:
                ctx.count('read:status-0x00')
                break
            if len(frags) > n:
                return ctx.violation('too-many-fragments', 'read_frag %r needed more than %d fragments' % (wit, n), dict(wit, fragments=frags))
        ctx.count('monitor:reassembly')
        from vlib.arraymodel import represent, same_value
        want = [represent(self.tname, v) for v in self.model.tags['t'].values[i:i + n]]
        if len(got) != len(want) or not all(same_value(self.tname, a, b) for a, b in zip(got, want)):
            return ctx.violation('reassembly-differs', 'read_frag %r reassembled %r, expected %r' % (wit, got[:12], want[:12]), dict(wit, fragments=frags))
        ctx.count('read:transfers')
        if len(frags) > 1:
            ctx.count('read:multi-fragment')
        if self.budget < self.size:
            ctx.count('read:budget-smaller-than-element')
        return frags

    def write_tiling(self, i, n, pieces, order, salt, vals=None):
        """pieces: list of (a, b) element sub-ranges of [0,n) tiling it; order: permutation of piece indexes"""
        ctx = self.ctx
        wit = {'type': self.tname, 'N': self.N, 'start': i, 'count': n, 'pieces': pieces, 'order': order}
        before = list(self.model.tags['t'].values)
        if vals is None:
            vals = distinct_values(self.tname, n, salt)
        for k in order:
            a, b = pieces[k]
            req = {'path': {'segment': [{'symbolic': 'T'}, {'element': i}]},
                   'write_frag': {'type': self.code, 'elements': n, 'offset': a * self.size, 'data': vals[a:b]}}
            rep, err = self.request(req)
            if rep is None or rep['status'] != 0:
                return ctx.violation('tiled-write-refused', 'write_frag piece %r of %r: %r %r' % ((a, b), wit, rep, err), wit)
            self.model.apply(req)
        ctx.count('write:tilings')
        if order != sorted(order):
            ctx.count('write:shuffled')
        # whole tag must now be: before, except [i, i+n) == vals
        from vlib.arraymodel import represent, same_value
        state = self.sim.state()['T']
        state = state if isinstance(state, list) else [state]
        want = before[:i] + vals + before[i + n:]
        ctx.count('monitor:untouched-elements')
        for k, (a, b) in enumerate(zip(state, want)):
            if not same_value(self.tname, represent(self.tname, a), represent(self.tname, b)):
                key = 'tiled-write-stored-wrong-values' if i <= k < i + n else 'tiled-write-touched-other-elements'
                return ctx.violation(key, 'after tiled write %r element %d is %r, expected %r' % (wit, k, a, b), wit)
        return True


def rc_size(t):
    from vlib import refcodec as rc
    return rc.size_of(t)


def tilings(n, rng, quick):
    out = []
    for cut in range(1, n):
        out.append([(0, cut), (cut, n)])
    for _ in range(2 if quick else 6):
        if n >= 3:
            k = rng.randrange(2, min(n, 5) + 1)
            cuts = sorted(rng.sample(range(1, n), k - 1))
            out.append(list(zip([0] + cuts, cuts + [n])))
    if not out:
        out.append([(0, n)])
    return out


def run(ctx):
    rng = ctx.rng
    quick = ctx.tier == 'quick'
    types = TYPES_QUICK if quick else TYPES_FULL
    maxN = 6 if quick else 12
    ctx.exhaustive = True
    combos = [(t, N) for t in types for N in range(1, maxN + 1)]
    k = 0
    for t, N in combos:
        from vlib import refcodec as rc
        size = rc.size_of(t)
        for B in range(1, 3 * size + 2):
            k += 1
            if k % ctx.nshards != ctx.shard:
                continue
            if ctx.time_left() < SOFT[ctx.tier] * 0.3:
                ctx.exhaustive = False
                ctx.notes.append('scaled-down enumeration stopped at the soft budget')
                break
            d = Driver(ctx, t, N, B)
            try:
                d.set_all(distinct_values(t, N))
                for i in range(N):
                    for n in range(1, N - i + 1):
                        fr = d.read_transfer(i, n)
                        ctx.enumerated(1)
                        if ctx.want_sample() and fr and len(fr) > 2 and rng.random() < 0.01:
                            ctx.sample({'read_frag': {'type': t, 'N': N, 'start': i, 'count': n, 'budget_bytes': B}, 'fragments(status,elements)': fr})
                # writes: one (i, n) sweep per (type, N) at two budgets is enough (budget does not affect writes)
                if B in (1, 3 * size + 1):
                    for i in range(N):
                        for n in range(1, N - i + 1):
                            for pieces in tilings(n, rng, quick):
                                order = list(range(len(pieces)))
                                d.write_tiling(i, n, pieces, order, salt=k)
                                ctx.enumerated(1)
                                if len(pieces) > 1:
                                    rng.shuffle(order)
                                    d.write_tiling(i, n, pieces, order, salt=k + 1)
                                    ctx.enumerated(1)
                    if t in ('REAL', 'LREAL'):
                        # values that compare equal to what is stored but are different values on the wire (signed zero): "stores exactly
                        # those values" is about the encoded value, not about ==
                        for stored, written in ((0.0, -0.0), (-0.0, 0.0)):
                            for n in range(1, N + 1):
                                d.set_all([stored] * N)
                                vals = [written if (j + n) % 3 else stored for j in range(n)]
                                for pieces in tilings(n, rng, True)[:3]:
                                    d.write_tiling(0, n, pieces, list(range(len(pieces))), salt=k, vals=vals)
                                    ctx.count('write:equal-but-not-identical')
                                    ctx.enumerated(1)
                        d.set_all(distinct_values(t, N))
            finally:
                d.close()
    # the same transfer shape for two element types of equal size, one after the other in this process (each order in a different
    # shard, i.e. a different process): whatever the library keeps between transfers must not depend on the element type alone by size
    pairs = [('BOOL', 'USINT'), ('BOOL', 'SINT'), ('SINT', 'USINT'), ('INT', 'UINT'), ('DINT', 'REAL'), ('LINT', 'LREAL')]
    jobs = [(a, b) for a, b in pairs] + [(b, a) for a, b in pairs]
    for j, (t1, t2) in enumerate(jobs):
        if j % ctx.nshards != ctx.shard:
            continue
        N = 600 if rc_size(t1) == 1 else 300
        for t in (t1, t2):
            d = Driver(ctx, t, N, 488)
            try:
                d.set_all(distinct_values(t, N, salt=j))
                fr = d.read_transfer(0, N)
                fr2 = d.read_transfer(17, N - 17 - 11)
                d.write_tiling(5, 180, [(0, 90), (90, 180)], [1, 0], salt=j + 3)
                fr3 = d.read_transfer(0, N)
                ctx.case(('same-shape', t1, t2, t), nontrivial=True)
                ctx.count('same-shape:transfers')
                if not (fr and fr2 and fr3):
                    return
            finally:
                d.close()
    # large transfers at the default budget and a few others
    for j in range(6 if quick else 400):
        if ctx.expired():
            break
        t = rng.choice(TYPES_FULL)
        N = rng.choice([100, 244, 245, 488, 489, 1000, 5000])
        B = rng.choice([488, 488, 100, 1000, 4000])
        d = Driver(ctx, t, N, B)
        try:
            d.set_all(distinct_values(t, N, salt=j))
            i = rng.choice([0, 1, N // 2, N - 1])
            n = rng.choice([1, N - i, max(1, (N - i) // 2)])
            fr = d.read_transfer(i, n)
            ctx.case(('large', t, N, B, i, n), nontrivial=bool(fr) and (len(fr) > 1 or i > 0))
            ctx.count('large:transfers')
            if fr and ctx.want_sample() and len(fr) > 3:
                ctx.sample({'read_frag': {'type': t, 'N': N, 'start': i, 'count': n, 'budget_bytes': B}, 'fragments': len(fr), 'first': fr[:3], 'last': fr[-1]})
        finally:
            d.close()


def replay(ctx, witness):
    d = Driver(ctx, witness['type'], witness['N'], witness.get('budget', 488))
    try:
        d.set_all(distinct_values(witness['type'], witness['N']))
        if 'pieces' in witness:
            d.write_tiling(witness['start'], witness['count'], [tuple(p) for p in witness['pieces']], witness['order'], 1)
        else:
            d.read_transfer(witness['start'], witness['count'])
    finally:
        d.close()
    ctx.case(('replay',))

import sys, time, threading, socket, struct, logging, random
sys.setswitchinterval(1e-5)
from cpppo.server.enip.main import main as enip_main
from cpppo.dotdict import apidict
from drv import hdr, rr, usend, read_tag, write_tag, path
logging.disable(logging.CRITICAL)
from cpppo.server.enip import device
_orig = device.Attribute.__setitem__
def _slow(self, key, value):
    if isinstance(key, slice) and not self.scalar:
        value = list(value)
        for j,v in zip(range(*key.indices(len(self))), value): self.value[j] = v
        return
    return _orig(self, key, value)
device.Attribute.__setitem__ = _slow
ctl = apidict( 2.0, {'done': False} )
kw = dict( argv=['-a','localhost:0','--no-config','S=DINT[8]','P=DINT[64]'], server={'control': ctl} )
t = threading.Thread( target=enip_main, kwargs=kw, daemon=True ); t.start()
while 'address' not in ctl: time.sleep(.01)
addr = ctl['address']
def recv_frame( s ):
    buf=b''
    while len(buf)<24:
        d=s.recv(24-len(buf)); 
        if not d: return None
        buf+=d
    ln=struct.unpack_from('<H',buf,2)[0]
    while len(buf)<24+ln:
        d=s.recv(24+ln-len(buf))
        if not d: return None
        buf+=d
    return buf
errs=[]; torn=[0]; ops=[0]
def worker( k ):
    rnd=random.Random(k)
    s=socket.create_connection(addr); s.sendall( hdr(0x65, struct.pack('<HH',1,0), sess=0 )); r=recv_frame(s); sess=struct.unpack_from('<I',r,4)[0]
    for i in range(300):
        ctx=struct.pack('<II',k,i)
        if rnd.random()<0.5:
            v=k*100000+i
            mr=write_tag('S',0,0xc4,'<i',[v]*8)
        else:
            mr=read_tag('S',0,8)
        cpf = struct.pack('<IH', 0, 8) + struct.pack('<H',2) + struct.pack('<HH',0,0) + struct.pack('<HH',0xb2,len(mr)) + mr
        s.sendall( hdr(0x6f,cpf,sess=sess,ctx=ctx))
        r=recv_frame(s)
        if r is None: errs.append((k,i,'EOF')); return
        if r[12:20]!=ctx: errs.append((k,i,'ctx',r[12:20]))
        if struct.unpack_from('<I',r,8)[0]: errs.append((k,i,'enipstatus')); return
        cip=r[24+16:]
        if cip[0]==0xcc:
            vals=struct.unpack_from('<8i',cip,6)
            if len(set(vals))!=1: torn[0]+=1
        ops[0]+=1
    s.close()
th=[threading.Thread(target=worker,args=(k,)) for k in range(8)]
t0=time.time()
[x.start() for x in th]; [x.join() for x in th]
print( 'ops',ops[0],'torn',torn[0],'errs',errs[:5], time.time()-t0 )
ctl['done']=True

#!/usr/bin/env python3
"""usage: keepseed.py <id> <property> <worktree> '<needs>' '<ran>' '<caught_by>' [<check>]  -- stores a verified seeded change under
seeded/<id>/.  <check> (default: the property) is the check ./selftest runs against it, for changes whose violation of the given property only
manifests under a workload that belongs to another property's check (e.g. concurrency -> C09)."""
import json, os, shutil, sys
sid, prop, wt, needs, ran, caught = sys.argv[1:7]
check = sys.argv[7] if len(sys.argv) > 7 else prop
here = os.path.dirname(os.path.dirname(os.path.abspath(__file__)))
d = os.path.join(here, 'seeded', sid)
os.makedirs(d, exist_ok=True)
for fn in ('patch.diff', 'demo.py', 'notes.md'):
    src = os.path.join(wt, 'seeded_out', fn)
    if os.path.exists(src):
        shutil.copy(src, os.path.join(d, fn))
json.dump({'property': prop, 'check': check, 'needs_to_manifest': needs, 'what_was_run': ran, 'caught_by': caught,
           'origin': 'independent sub-agent given only the property text and a scratch worktree of /repo'},
          open(os.path.join(d, 'meta.json'), 'w'), indent=1)
print('kept', d, os.listdir(d))

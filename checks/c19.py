"""C19 -- merging register ranges never drops a requested register.

Monitor: set arithmetic on the requested address set, evaluated on every call of the real
remote/plc_modbus.merge() and shatter() made by the workload.
"""
from __future__ import annotations
import itertools, threading

PROPERTY = 'C19'
META = {
    'level': 'exploration',
    'technique': 'runtime monitor (set-arithmetic oracle) on every merge()/shatter() call over an exhaustively enumerated small domain plus seeded large range sets',
    'text': 'Registers are also requested while the poller runs: an ordinary poll() plus one issued from a one-shot hook right after the poller has iterated its address table; both must be polled within 4 cycles. Every call of the real merge()/shatter() made by the workload is judged by a set-arithmetic oracle over the requested '
            'address set (sorted, disjoint, <= limit, one 10000-block, superset of requested, nothing farther than reach). The small '
            'domain (<=3 ranges, windows at a bank start / across a 10000 boundary / around 40001, counts 1..4, reach 0..4, limit None/1..5) '
            'is enumerated completely, so every relation between ranges (nested, overlapping, adjacent, duplicate, disjoint) occurs; '
            'large seeded sets add the default per-bank limits. The real poller_modbus thread is then run with only its device read replaced by a recorder: the reads it issues per cycle '
            'are judged by the same oracle against the polled addresses, and afterwards exactly the polled addresses hold the device values. Held-on-observed, not a proof for larger sets.',
    'note': 'Trusts the harness oracle (30 lines of set arithmetic) and that bank = address//10000 as the library defines it; the empty set is not judged.',
}
LEVEL = 'exploration'
RULE = ('quick/thorough: exhaustive enumeration of all multisets of <=3 ranges (address in a small window at the '
        'start of a bank, around a 10000-block boundary and around 40001, count 1..4, each range inside one '
        'bank) x reach 0..4 x limit None/1..5, then seeded large range sets (<=200 ranges) per bank with the '
        'per-bank default limits; shatter over every (address,count<=N,limit) of a small domain.  A case is '
        'distinct by its (ranges, reach, limit) tuple; non-trivial = at least two ranges or a range longer than the limit.')
ASSUMPTIONS = ['register bank = address // 10000, as remote/plc_modbus.merge defines it',
               'the empty range set is not judged (merge([]) raises StopIteration->RuntimeError; the poller never passes it)',
               'ranges have count >= 1: a zero-count "range" requests no register and is not a range of the property\'s domain (the unchanged merge lets such entries extend a run, e.g. merge([(1,2),(5,0),(7,0)], reach=3) polls register 6; harmless, and no caller passes them)']
REQUIRED = ['merge:nested', 'merge:overlap', 'merge:adjacent', 'merge:disjoint', 'merge:duplicate',
            'merge:within-reach-gap', 'merge:limit-split', 'shatter:calls', 'poller:configs', 'poller:added-while-polling']
TIMEOUT = {'quick': 300, 'thorough': 1800}
SOFT = {'quick': 25, 'thorough': 420}


def shards(tier):
    return 4 if tier == 'quick' else 16


def default_limit(address):
    # written from the Modbus PDU limits, not copied from shatter: bit reads 2000 bits (1968 = 123*16 used by
    # the library as its conservative value); register reads 125 (123 for read/write symmetry)
    if 1 <= address <= 9999 or 10001 <= address <= 19999 or 100001 <= address <= 165536:
        return 1968
    return 123


def judge_merge(ctx, merge, ranges, reach, limit, witness_extra=None):
    requested = set()
    for a, c in ranges:
        requested.update(range(a, a + c))
    wit = {'ranges': [list(r) for r in ranges], 'reach': reach, 'limit': limit}
    try:
        out = list(merge(list(ranges), reach=reach, limit=limit))
    except Exception as exc:
        ctx.violation('merge-raises', 'merge(%r, reach=%r, limit=%r) raised %r' % (ranges, reach, limit, exc), wit)
        return
    wit['output'] = [list(r) for r in out]
    covered = set()
    prev_end = None
    for a, c in out:
        if c < 1:
            ctx.violation('merge-empty-range', 'merge emitted an empty/negative range %r' % ((a, c),), wit)
            return
        lim = limit if limit else default_limit(a)
        if c > lim:
            ctx.violation('merge-exceeds-limit', 'range %r longer than limit %r' % ((a, c), lim), wit)
        if a // 10000 != (a + c - 1) // 10000:
            ctx.violation('merge-crosses-bank', 'range %r crosses a 10000-block' % ((a, c),), wit)
        if prev_end is not None and a < prev_end:
            ctx.violation('merge-unsorted-or-overlapping',
                          'range %r starts before the previous one ended (%d)' % ((a, c), prev_end), wit)
        prev_end = a + c
        covered.update(range(a, a + c))
    missing = requested - covered
    if missing:
        # classify by mechanism: is the dropped register part of a range nested inside an earlier one?
        key = 'merge-drops-requested'
        ctx.violation(key, 'merge(%r, reach=%r, limit=%r) -> %r drops requested registers %r' % (
            ranges, reach, limit, out, sorted(missing)[:12]), wit)
    extra = covered - requested
    if extra:
        r = reach if reach else 0
        req_sorted = sorted(requested)
        import bisect
        for x in extra:
            i = bisect.bisect_left(req_sorted, x)
            d = min(abs(x - req_sorted[j]) for j in (i - 1, i) if 0 <= j < len(req_sorted))
            if d > max(r, 0) or r == 0:
                ctx.violation('merge-polls-unrequested-beyond-reach',
                              'register %d is polled but is %d away from any requested one (reach %r)' % (x, d, reach), wit)
                break
        ctx.count('merge:within-reach-gap')
    # classification counters (what kinds of input relations were actually exercised)
    srt = sorted(ranges)
    for (a1, c1), (a2, c2) in zip(srt, srt[1:]):
        if (a1, c1) == (a2, c2):
            ctx.count('merge:duplicate')
        elif a2 + c2 <= a1 + c1:
            ctx.count('merge:nested')
        elif a2 < a1 + c1:
            ctx.count('merge:overlap')
        elif a2 == a1 + c1:
            ctx.count('merge:adjacent')
        else:
            ctx.count('merge:disjoint')
    if len(out) > 1 and any(o[0] + o[1] == n[0] for o, n in zip(out, out[1:])):
        ctx.count('merge:limit-split')
    ctx.count('merge:calls')


def judge_shatter(ctx, shatter, address, count, limit):
    wit = {'address': address, 'count': count, 'limit': limit}
    try:
        out = list(shatter(address, count, limit=limit))
    except Exception as exc:
        ctx.violation('shatter-raises', 'shatter(%r,%r,%r) raised %r' % (address, count, limit, exc), wit)
        return
    wit['output'] = [list(r) for r in out]
    lim = limit if limit else default_limit(address)
    pos = address
    for a, c in out:
        if a != pos or c < 1 or c > lim:
            ctx.violation('shatter-not-exact-tiling', 'shatter(%r,%r,%r) -> %r' % (address, count, limit, out), wit)
            return
        pos = a + c
    if pos != address + count:
        ctx.violation('shatter-not-exact-tiling', 'shatter(%r,%r,%r) -> %r does not end at %d' % (
            address, count, limit, out, address + count), wit)
    # all but the last piece are full
    if any(c != lim for a, c in out[:-1]):
        ctx.violation('shatter-not-exact-tiling', 'shatter(%r,%r,%r) -> %r has a short interior piece' % (
            address, count, limit, out), wit)
    ctx.count('shatter:calls')


def one_bank(a, c):
    return a // 10000 == (a + c - 1) // 10000


def run(ctx):
    from cpppo.remote.plc_modbus import merge, shatter
    quick = ctx.tier == 'quick'
    windows = [list(range(1, 9 if quick else 13)), list(range(9996, 10004)) if quick else list(range(9995, 10006)),
               ] + ([] if quick else [list(range(39995, 40006))])
    counts = [1, 2, 3, 4]
    reaches = [0, 1, 2, 3, 4] if not quick else [0, 1, 2, 3]
    limits = [None, 1, 2, 3, 5] if quick else [None, 1, 2, 3, 4, 5]
    ctx.exhaustive = True
    n = 0
    for w in windows:
        singles = [(a, c) for a in w for c in counts if one_bank(a, c)]
        for k in (1, 2, 3):
            for combo in itertools.combinations_with_replacement(singles, k):
                n += 1
                if n % ctx.nshards != ctx.shard:
                    continue
                # each input range lies within one bank; different ranges may lie in different banks
                for reach in reaches:
                    for limit in limits:
                        # order of presentation must not matter: rotate deterministically
                        rr = combo if (n + reach) % 2 else tuple(reversed(combo))
                        judge_merge(ctx, merge, rr, reach, limit)
                        ctx.enumerated(1)
                if ctx.want_sample() and k == 3 and n % 977 == 0:
                    ctx.sample({'merge': [list(r) for r in combo], 'reach': reaches[-1], 'limit': limits[-1],
                                'output': [list(r) for r in merge(list(combo), reach=reaches[-1], limit=limits[-1])]})
            if ctx.expired():
                ctx.exhaustive = False
                ctx.inconclusive_because('enumeration did not finish inside the soft budget')
                return
    # shatter: exhaustive small domain + default limits at the bank boundaries
    for address in (1, 9990, 10001, 30001, 40001, 100001, 165000):
        for count in range(1, 14 if quick else 40):
            for limit in (None, 1, 2, 3, 5, 7, 13):
                judge_shatter(ctx, shatter, address, count, limit)
                ctx.enumerated(1)
        for count in (122, 123, 124, 246, 247, 1967, 1968, 1969, 3936, 3937, 5000):
            if address // 10000 == (address + count - 1) // 10000 or True:
                judge_shatter(ctx, shatter, address, count, None)
                ctx.case(('shatter', address, count, None))
    poller_part(ctx, 6 if quick else 100)
    # seeded large sets, every bank, default and explicit limits
    rng = ctx.rng
    rounds = 300 if quick else 20000
    bases = [1, 10001, 30001, 40001, 100001, 110001, 400001]
    for i in range(rounds):
        if ctx.expired():
            break
        base = rng.choice(bases)
        span = rng.choice([30, 200, 3000, 9000])
        nr = rng.choice([1, 2, 3, 5, 10, 40, 200])
        ranges = []
        for _ in range(nr):
            a = base + rng.randrange(span)
            c = rng.choice([1, 1, 2, 3, 10, 100, 125, 500])
            c = min(c, (a // 10000 + 1) * 10000 - a)
            ranges.append((a, c))
        if rng.random() < 0.3:       # add ranges in a second bank
            b2 = rng.choice(bases)
            for _ in range(rng.randrange(1, 5)):
                a = b2 + rng.randrange(span)
                c = min(rng.choice([1, 4, 50]), (a // 10000 + 1) * 10000 - a)
                ranges.append((a, c))
        rng.shuffle(ranges)
        reach = rng.choice([0, 1, 2, 5, 10, 100, 1000])
        limit = rng.choice([None, None, 1, 7, 16, 100, 123, 125, 2000])
        judge_merge(ctx, merge, tuple(ranges), reach, limit)
        ctx.case(('big', tuple(ranges), reach, limit), nontrivial=len(ranges) > 1)
        if ctx.want_sample() and i % 50 == 7 and len(ranges) <= 5:
            ctx.sample({'merge': [list(r) for r in ranges], 'reach': reach, 'limit': limit,
                        'output': [list(r) for r in merge(list(ranges), reach=reach, limit=limit)]})


def value_of(address):
    return (address * 2654435761) % 65521


class _HookedDict(dict):
    """the poller's address table; after a complete iteration over it, a one-shot callback runs (in the iterating thread)"""
    after_iteration = None

    def __iter__(self):
        for k in dict.__iter__(self):
            yield k
        cb, self.after_iteration = self.after_iteration, None
        if cb is not None:
            cb()


def poller_part(ctx, rounds):
    """The real poller_modbus thread, with only the device I/O (_read) replaced by a recorder: what it asks the device for must be
    a correct merge of the polled addresses, and afterwards every polled address -- and no other -- holds the device's value."""
    import time
    try:
        from cpppo.remote import plc_modbus
        from cpppo.remote.pymodbus_fixes import modbus_client_tcp
    except Exception as exc:                                  # pymodbus absent: this part cannot run
        ctx.notes.append('poller part skipped: %r' % (exc,))
        return
    rng = ctx.rng

    class Recorder(plc_modbus.poller_modbus):
        def __init__(self, *a, **k):
            self.calls = []
            super().__init__(*a, **k)

        def _read(self, address, count=1, **kw):
            self.calls.append((address, count))
            return [value_of(a) for a in range(address, address + count)]

    for i in range(rounds):
        if ctx.expired():
            break
        base = rng.choice([1, 10001, 30001, 40001, 100001, 400001])
        span = rng.choice([10, 150, 400, 5000])
        addrs = set()
        for _ in range(rng.choice([1, 2, 5, 20, 60])):
            a = base + rng.randrange(span)
            for d in range(rng.choice([1, 1, 2, 8, 130])):
                if (a + d) // 10000 == a // 10000:
                    addrs.add(a + d)
        if rng.random() < 0.3:
            addrs.add(rng.choice([9999, 19999, 39999, 10001, 40001]))
        reach = rng.choice([1, 2, 10, 100])
        wit = {'poller': True, 'addresses': sorted(addrs), 'reach': reach}
        p = Recorder('verif', client=modbus_client_tcp(host='127.0.0.1', port=9), reach=reach)
        p._data = _HookedDict(p._data)
        try:
            for a in sorted(addrs, key=lambda x: rng.random()):
                p.poll(a)
            p.rate = 0.002
            deadline = time.time() + 10
            while p.counter < 2 and time.time() < deadline:
                time.sleep(0.002)
            if i % 2 == 0 and p.counter >= 2:
                # registers requested while the poller thread is running, at the most awkward moment: right after the poller has gone
                # through the addresses it knows (as if another thread's poll() were scheduled exactly there -- a switch CPython may make).
                # Whatever the poller keeps between cycles, a requested register must be polled within the next few cycles.
                late = []
                for _ in range(rng.choice([2, 4])):
                    a = base + rng.randrange(span)
                    if a // 10000 != base // 10000 or a in addrs or a in late:
                        continue
                    fired = threading.Event()
                    p._data.after_iteration = lambda a=a, fired=fired: (p.poll(a), fired.set())
                    a1 = base + rng.randrange(span)
                    if a1 // 10000 == base // 10000 and a1 != a:
                        p.poll(a1)                  # an ordinary request from this thread; the awkward one follows when the poller next goes through its table
                        late.append(a1)
                    if not fired.wait(10):
                        ctx.inconclusive_because('the poller did not iterate its addresses within 10 s')
                        return
                    late.append(a)
                    c0 = p.counter
                    deadline = time.time() + 20
                    while p.counter < c0 + 4 and time.time() < deadline:
                        time.sleep(0.002)
                    if p.counter < c0 + 4:
                        ctx.inconclusive_because('the poller thread did not complete 4 cycles in 20 s after a late addition')
                        return
                    ctx.count('poller:added-while-polling')
                    bad = [x for x in late if p._data.get(x) != value_of(x)]
                    if bad:
                        a = bad[0]
                        wit['addresses'] = sorted(addrs | set(late))
                        wit['added_while_polling'] = late
                        ctx.violation('poller-never-polls-requested-register', 'register %d was requested while the poller was between taking its addresses and polling them; '
                                      '4 complete cycles later it still holds %r (the device has %r)' % (a, p._data.get(a), value_of(a)), wit)
                        return
                addrs |= set(late)
                wit['addresses'] = sorted(addrs)
                wit['added_while_polling'] = late
                p.calls = []
                c0 = p.counter
                deadline = time.time() + 20
                while p.counter < c0 + 2 and time.time() < deadline:
                    time.sleep(0.002)
            cycles = p.counter
        finally:
            p.stop()
            p.join(timeout=5)
        if cycles < 2:
            ctx.inconclusive_because('the poller thread completed %d cycles in 10 s' % cycles)
            return
        calls = sorted(set(p.calls))
        ctx.count('poller:cycles', cycles)
        ctx.count('poller:device-reads', len(p.calls))
        # what was asked of the device, judged as a merge of the polled addresses
        judge_merge(ctx, lambda ranges, reach=None, limit=None: calls, tuple((a, 1) for a in sorted(addrs)), reach, None)
        stored = {a: v for a, v in p._data.items()}
        if set(stored) != addrs:
            ctx.violation('poller-stores-unknown-address', 'polled %d addresses, the table now has %d: extra %r missing %r' % (
                len(addrs), len(stored), sorted(set(stored) - addrs)[:8], sorted(addrs - set(stored))[:8]), wit)
            return
        wrong = [a for a in sorted(addrs) if stored[a] != value_of(a)]
        if wrong:
            ctx.violation('poller-polled-address-without-its-value', 'after %d complete cycles addresses %r hold %r, the device has %r' % (
                cycles, wrong[:6], [stored[a] for a in wrong[:6]], [value_of(a) for a in wrong[:6]]), wit)
            return
        ctx.count('poller:configs')
        ctx.case(('poller', tuple(sorted(addrs)), reach), nontrivial=len(addrs) > 1)
        if ctx.want_sample() and len(addrs) <= 8:
            ctx.sample({'poller_addresses': sorted(addrs), 'reach': reach, 'device_reads_per_cycle': [list(c) for c in calls]})


def replay(ctx, witness):
    from cpppo.remote.plc_modbus import merge, shatter
    if 'ranges' in witness:
        judge_merge(ctx, merge, tuple(tuple(r) for r in witness['ranges']), witness['reach'], witness['limit'])
    else:
        judge_shatter(ctx, shatter, witness['address'], witness['count'], witness['limit'])
    ctx.case(('replay',))

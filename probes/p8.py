import logging; logging.disable(logging.CRITICAL)
import cpppo, time
from cpppo.server.enip import parser, client, logix, device
from cpppo.dotdict import dotdict
# build two frames w/ client producers (no socket): emulate cip_send
def frame( cip, ctx=b'abc', session=7 ):
    data = dotdict(); data.enip = {}
    data.enip.session_handle = session; data.enip.options=0; data.enip.status=0
    data.enip.sender_context = {}; data.enip.sender_context.input = client.format_context( ctx )
    data.enip.CIP = cip
    data.enip.input = bytearray( parser.CIP.produce( data.enip ))
    return bytes( parser.enip_encode( data.enip ))
c1 = dotdict(); c1.register = {}; c1.register.options=0; c1.register.protocol_version=1
c2 = dotdict(); c2.list_services = {}
f = frame(c1)+frame(c2)+frame(c1)
def parse_stream( chunks ):
    src = cpppo.chainable(); out=[]; chunks=list(chunks); steps=0
    with parser.enip_machine( context='enip' ) as m:
        while True:
            data = dotdict(); eof=False
            gen = m.run( source=src, data=data, path='request' )
            try:
                for mch,sta in gen:
                    steps+=1
                    if sta is not None: continue
                    if src.peek() is None:
                        if not chunks: eof=True; break
                        src.chain( chunks.pop(0) )
            finally: gen.close()
            if eof and not m.terminal: out.append(('PARTIAL',src.sent)); break
            if 'request' not in data: break
            out.append( (data.request.enip.command, data.request.enip.length, bytes(data.request.enip.get('input',b'')) , src.sent) )
            if eof: break
    return out,steps
print( parse_stream([f]) )
print( parse_stream([bytes([b]) for b in f])[0] == parse_stream([f])[0] )
t=time.time()
ok=0
for i in range(len(f)+1):
    ok += parse_stream([f[:i],f[i:]])[0] == parse_stream([f])[0]
print( ok, len(f)+1, time.time()-t )
print( parse_stream([f[:30]]) )

"""C14 -- independent Logix client implementations interoperate with the simulator.

History + executable model with two independent clients on the other side of the wire: pylogix (a
third-party implementation; Register, Large Forward Open, connected messaging, fragmentation and
multi-reads of its own) and the harness reference codec (vlib/refcodec.py; unconnected and
connected requests encoded byte by byte and decoded by it).  Values and statuses are compared with
the array model; the Connection Manager's table of open connections is inspected.
"""
from __future__ import annotations
import struct

PROPERTY = 'C14'
META = {
    'level': 'exploration',
    'technique': 'history + executable array model driven through two independent client implementations (pylogix, reference codec) against the real TCP simulator; inspection of the forward-open table',
    'text': 'Every pylogix session reads at exactly one and two reply capacities and one element either side; connected reference sessions start their sequence counts just below the 16-bit wrap, a byte boundary and powers of two; two reference originators with one connection triplet are opened together and one is closed. pylogix connects to the real simulator (Register Session + Large Forward Open), reads and writes scalars and arrays of BOOL, SINT, INT, DINT, LINT, REAL, LREAL and the unsigned '
            'types, reads arrays larger than one reply (it fragments by itself), performs list reads (Multiple Service Packet over SendUnitData), provokes out-of-range and unknown-tag errors, '
            'and closes (Forward Close). Every returned value and status is compared with the array model (status strings mapped to codes); while connected the Connection Manager must hold '
            'exactly one forward entry for the peer and none after close. The same kind of history is sent as bytes produced by the reference encoder, unconnected (SendRRData) and connected '
            '(Forward Open + SendUnitData with sequence counts), and every reply must be decodable by the reference decoder, echo the sequence count and carry the model\'s values.',
    'note': 'If pylogix cannot be imported the check is inconclusive, not held. pylogix 1.1.6 is configured through comm.Port (the repository\'s own test sets an attribute pylogix ignores).',
}
LEVEL = META['level']
RULE = ('a case = one client call (pylogix) or one reference-encoded request compared with the model; distinct by (configuration, call, position); non-trivial = a value or a documented error status was compared')
ASSUMPTIONS = ['pylogix status strings: Success=0x00, "Path destination unknown"=0x05, "Unknown error 255"=0xFF']
REQUIRED = ['ref:two-originators', 'pylogix:read-at-reply-capacity', 'pylogix:sessions', 'pylogix:read', 'pylogix:write', 'pylogix:read-large-array', 'pylogix:multi-read', 'pylogix:error-out-of-range', 'pylogix:error-unknown-tag',
            'pylogix:forward-open-seen', 'pylogix:forward-close-seen', 'ref:unconnected', 'ref:connected', 'ref:sequence-echoed', 'types:unsigned', 'types:LREAL', 'types:BOOL']
TIMEOUT = {'quick': 300, 'thorough': 2400}
SOFT = {'quick': 30, 'thorough': 600}

TYPES = ['BOOL', 'SINT', 'INT', 'DINT', 'LINT', 'REAL', 'LREAL', 'USINT', 'UINT', 'UDINT', 'ULINT']
STATUS = {'Success': 0x00, 'Path destination unknown': 0x05, 'Unknown error 255': 0xFF, 'Partial transfer': 0x06}


def shards(tier):
    return 2 if tier == 'quick' else 8


_cycle = {'n': 0}


def gen_cfg(rng):
    names = ['TagA', 'TagB', 'Flt', 'Big', 'Scal', 'Uns']
    cfg = []
    for nm in names:
        _cycle['n'] += 1
        t = TYPES[_cycle['n'] % len(TYPES)]         # every type occurs, deterministically
        if nm == 'Big':
            t, n = rng.choice(['INT', 'DINT', 'REAL']), rng.choice([300, 600, 1000])
        elif nm == 'Scal':
            n = 1
        elif nm == 'Uns':
            t, n = rng.choice(['USINT', 'UINT', 'UDINT', 'ULINT']), rng.choice([2, 5])
        elif nm == 'Flt':
            t, n = rng.choice(['REAL', 'LREAL']), rng.choice([1, 4])
        else:
            n = rng.choice([1, 3, 10, 40])
        cfg.append((nm, t, n, None))
    return cfg


def same(tname, a, b):
    from vlib.arraymodel import same_value
    return same_value(tname, a, b)


def drained(device, rounds=1000):
    """the simulator purges a connection's forward-open entries when its thread notices the end of the TCP session: wait for that
    (generously: 10 s is a watchdog for "never", not a performance requirement)"""
    import time
    for _ in range(rounds):
        if not device.Connection_Manager.forwards:
            return True
        time.sleep(0.01)
    return False


def pylogix_session(ctx, sim, cfg, model, rng, ncalls):
    import pylogix
    from cpppo.server.enip import device
    drained(device)         # entries of the previous (closed) session may still be on their way out
    wit = {'config': cfg, 'calls': []}
    tmap = {e[0]: e for e in cfg}
    comm = pylogix.PLC()
    comm.SocketTimeout = 5
    comm.IPAddress = sim.address[0]
    comm.Port = sim.address[1]
    ctx.count('pylogix:sessions')
    try:
        # reads whose data is exactly one / two reply capacities (488 bytes), one element less and one more: the sizes at which the
        # simulator's "more data follows" status decides whether the other implementation asks for a further fragment
        from vlib import refcodec as rc_
        big = tmap['Big']
        q = 488 // rc_.size_of(big[1])
        for cnt in (q, q - 1, q + 1, 2 * q):
            if cnt > big[2]:
                continue
            i0 = rng.randrange(0, big[2] - cnt + 1)
            call = ('Read', 'Big[%d]' % i0, cnt)
            wit['calls'].append(call)
            resp = comm.Read('Big[%d]' % i0, cnt)
            want = model.read([{'symbolic': 'Big'}, {'element': i0}], cnt, budget=10**9)['read_tag']['data']
            ctx.count('pylogix:read-at-reply-capacity')
            got = resp.Value if isinstance(resp.Value, list) else [resp.Value]
            if STATUS.get(resp.Status) != 0 or len(got) != len(want) or not all(same(big[1], a, b) for a, b in zip(got, want)):
                ctx.violation('independent-client-fragmented-read-differs', 'pylogix Read(Big[%d],%d) (%d bytes) -> %r, %d values' % (
                    i0, cnt, cnt * rc_.size_of(big[1]), resp.Status, len(got)), wit)
                return
        for k in range(ncalls):
            r = rng.random()
            name, t, n, _ = rng.choice(cfg)
            i = rng.randrange(n)
            cnt = rng.randrange(1, min(n - i, 12) + 1)
            tagtxt = name if (n == 1) else '%s[%d]' % (name, i)
            segs = [{'symbolic': name}] + ([{'element': i}] if n > 1 else [])
            call = None
            if r < 0.4:
                call = ('Read', tagtxt, cnt)
                resp = comm.Read(tagtxt, cnt)
                wit['calls'].append(call)
                want = model.read(segs, cnt, budget=10**9)
                ctx.count('pylogix:read')
                if STATUS.get(resp.Status) != 0:
                    ctx.violation('independent-client-read-fails', 'pylogix Read(%r,%d) -> %r, model expects success' % (tagtxt, cnt, resp.Status), wit)
                    return
                got = resp.Value if isinstance(resp.Value, list) else [resp.Value]
                wv = want['read_tag']['data']
                if len(got) != len(wv) or not all(same(t, a, b) for a, b in zip(got, wv)):
                    ctx.violation('independent-client-reads-other-values', 'pylogix Read(%r,%d) -> %r, model %r' % (tagtxt, cnt, got[:8], wv[:8]), wit)
                    return
            elif r < 0.7:
                from vlib import gen
                vals = gen.typed_values(rng, t, cnt)
                if t in ('REAL',):
                    vals = [gen.f32(v) if v == v and abs(v) != float('inf') else 1.5 for v in vals]
                if t == 'LREAL':
                    vals = [v if v == v and abs(v) != float('inf') else 2.5 for v in vals]
                call = ('Write', tagtxt, vals)
                wit['calls'].append(call)
                resp = comm.Write(tagtxt, vals if cnt > 1 else vals[0])
                from vlib import refcodec as rc
                want = model.write(segs, rc.NAME2CODE[t], vals, count=len(vals))
                ctx.count('pylogix:write')
                if STATUS.get(resp.Status) != want['status']:
                    ctx.violation('independent-client-write-status', 'pylogix Write(%r,%r) -> %r, model status 0x%02x' % (tagtxt, vals[:6], resp.Status, want['status']), wit)
                    return
                if t in ('USINT', 'UINT', 'UDINT', 'ULINT'):
                    ctx.count('types:unsigned')
                ctx.count('types:' + t)
            elif r < 0.78:
                big = tmap['Big']
                call = ('Read', 'Big[0]', big[2])
                wit['calls'].append(call)
                resp = comm.Read('Big[0]', big[2])
                want = model.read([{'symbolic': 'Big'}], big[2], budget=10**9)['read_tag']['data']
                ctx.count('pylogix:read-large-array')
                if STATUS.get(resp.Status) != 0 or len(resp.Value) != len(want) or not all(same(big[1], a, b) for a, b in zip(resp.Value, want)):
                    ctx.violation('independent-client-fragmented-read-differs', 'pylogix Read(Big[0],%d) -> %r, %d values' % (big[2], resp.Status, len(resp.Value or [])), wit)
                    return
            elif r < 0.88:
                picks = [rng.choice(cfg) for _ in range(rng.choice([2, 3, 5]))]
                tags = [(p[0] if p[2] == 1 else '%s[%d]' % (p[0], rng.randrange(p[2]))) for p in picks]
                if rng.random() < 0.3:
                    tags.insert(rng.randrange(len(tags) + 1), 'NoSuchTag')
                call = ('Read', tags)
                wit['calls'].append(call)
                resps = comm.Read(tags)
                ctx.count('pylogix:multi-read')
                if len(resps) != len(tags):
                    ctx.violation('independent-client-multi-read-count', 'pylogix Read(%r) returned %d responses' % (tags, len(resps)), wit)
                    return
                for tg, rs in zip(tags, resps):
                    if tg == 'NoSuchTag':
                        if STATUS.get(rs.Status) != 0x05:
                            ctx.violation('independent-client-error-status', 'multi-read member NoSuchTag -> %r, expected Path destination unknown' % (rs.Status,), wit)
                            return
                        ctx.count('pylogix:error-unknown-tag')
                        continue
                    nm = tg.split('[')[0]
                    idx = int(tg.split('[')[1][:-1]) if '[' in tg else 0
                    e = tmap[nm]
                    wv = model.read([{'symbolic': nm}, {'element': idx}], 1, budget=10**9)['read_tag']['data'][0]
                    if STATUS.get(rs.Status) != 0 or not same(e[1], rs.Value, wv):
                        ctx.violation('independent-client-reads-other-values', 'multi-read member %s -> %r %r, model %r' % (tg, rs.Status, rs.Value, wv), wit)
                        return
            elif r < 0.94:
                e = rng.choice([x for x in cfg if x[2] > 1])
                tagtxt = '%s[%d]' % (e[0], e[2] - 1)
                call = ('Read', tagtxt, 5)
                wit['calls'].append(call)
                resp = comm.Read(tagtxt, 5)
                ctx.count('pylogix:error-out-of-range')
                if STATUS.get(resp.Status) != 0xFF or resp.Value is not None:
                    ctx.violation('independent-client-error-status', 'pylogix Read(%r,5) past the end -> %r %r, expected general error 0xFF' % (tagtxt, resp.Status, resp.Value), wit)
                    return
            else:
                call = ('Read', 'Nope')
                wit['calls'].append(call)
                resp = comm.Read('Nope')
                ctx.count('pylogix:error-unknown-tag')
                if STATUS.get(resp.Status) != 0x05:
                    ctx.violation('independent-client-error-status', 'pylogix Read(Nope) -> %r, expected Path destination unknown' % (resp.Status,), wit)
                    return
            ctx.case((repr(cfg), repr(call), k))
            if k == 0:
                nfw = len(device.Connection_Manager.forwards)
                ctx.count('pylogix:forward-open-seen')
                if nfw != 1:
                    ctx.violation('forward-open-table-wrong', '%d forward-open entries while one client is connected' % nfw, wit)
                    return
        if ctx.want_sample():
            ctx.sample({'pylogix_calls': [repr(c)[:80] for c in wit['calls'][:5]], 'config': [(e[0], e[1], e[2]) for e in cfg]})
    finally:
        comm.Close()
    drained(device, 1000)
    ctx.count('pylogix:forward-close-seen')
    if device.Connection_Manager.forwards:
        ctx.violation('forward-open-table-wrong', 'forward-open entries remain after the client closed: %r' % list(device.Connection_Manager.forwards), wit)


def reference_session(ctx, sim, cfg, model, rng, ncalls):
    """the reference codec as client: unconnected and connected"""
    from vlib import simdrv, refcodec as rc, reqgen, simcheck
    c = simdrv.RawClient(sim.address)
    wit = {'config': cfg, 'requests': []}
    try:
        c.register()
        for k in range(ncalls):
            label, req = reqgen.gen_request(rng, cfg, p_invalid=0.2, allow_unknown=False)
            fr = c.rr(rc.enc_request(req))
            wit['requests'].append(req)
            ctx.count('ref:unconnected')
            ctx.case((repr(cfg), 'ref-u', rc.enc_request(req), k))
            if fr is None or fr['status'] != 0:
                ctx.violation('reference-request-not-answered', 'reference-encoded %r: %r' % (req, fr and fr['status']), wit)
                return
            try:
                rep = rc.dec_reply(fr['cip'])
            except Exception as exc:
                ctx.violation('reply-not-decodable-by-reference-decoder', 'reply %s: %r' % (fr['cip'].hex(), exc), wit)
                return
            mm = simcheck.reply_mismatch(rep, model.apply(req))
            if mm:
                ctx.violation('reference-client-sees-other-values', '%r: %s' % (req, '; '.join(mm[:2])), wit)
                return
        # connected: Forward Open (small or large), then SendUnitData
        large = rng.random() < 0.5
        otid = rng.randrange(1, 2**32)
        fo = {'path': {'segment': [{'class': 6}, {'instance': 1}]},
              'forward_open': {'priority_time_tick': 10, 'timeout_ticks': 5,
                               'O_T': {'size': 4000 if large else 500, 'type': 2, 'priority': 0, 'variable': 1, 'redundant': 0, 'RPI': 2000000, 'connection_ID': 0},
                               'T_O': {'size': 4000 if large else 500, 'type': 2, 'priority': 0, 'variable': 1, 'redundant': 0, 'RPI': 2000000, 'connection_ID': otid},
                               'connection_serial': rng.randrange(65536), 'O_vendor': 0x1234, 'O_serial': rng.randrange(2**32), 'connection_timeout_multiplier': 0,
                               'transport_class_triggers': 0xA3, 'connection_path': {'segment': [{'port': 1, 'link': 0}, {'class': 2}, {'instance': 1}]}}}
        fr = c.rr(rc.enc_request(fo), wrap=False)
        if fr is None or fr['status'] != 0:
            ctx.violation('forward-open-refused', 'reference-encoded %s Forward Open: %r' % ('Large' if large else 'Small', fr and fr['status']), wit)
            return
        rep = rc.dec_reply(fr['cip'])
        if rep['status'] != 0 or rep['service'] != (0xDB if large else 0xD4):
            ctx.violation('forward-open-refused', 'Forward Open reply service 0x%02x status 0x%02x' % (rep['service'], rep['status']), wit)
            return
        conn_id = rep['forward_open']['O_T']['connection_ID']
        if rep['forward_open']['T_O']['connection_ID'] != otid:
            ctx.violation('forward-open-reply-wrong', 'T->O connection id %r not echoed (%r)' % (otid, rep['forward_open']['T_O']['connection_ID']), wit)
            return
        # sequence counts start just below the places where an implementation's arithmetic could slip: a byte boundary, the 16-bit
        # wrap, small powers of two; plus a random start
        _cycle['seq'] = _cycle.get('seq', 0) + 1
        seq = [254, 65533, 62, 126, 4094, 32766, rng.randrange(1, 60000)][_cycle['seq'] % 7]
        for k in range(max(3, ncalls // 2)):
            label, req = reqgen.gen_request(rng, cfg, p_invalid=0.2, allow_unknown=False)
            if rng.random() < 0.3:
                req = {'path': {'segment': [{'class': 2}, {'instance': 1}]}, 'multiple': {'request': [req, reqgen.gen_request(rng, cfg, p_invalid=0.2, allow_unknown=False)[1]]}}
            seq = (seq + 1) % 65536
            c.send(rc.unit_frame(rc.enc_request(req), c.session, conn_id, seq, struct.pack('<Q', k)))
            raw = c.recv_frame()
            wit['requests'].append(req)
            ctx.count('ref:connected')
            ctx.case((repr(cfg), 'ref-c', rc.enc_request(req), k))
            if raw is None:
                ctx.violation('reference-request-not-answered', 'connected request %r got no reply' % (req,), wit)
                return
            fr = rc.dec_frame(raw)
            if fr['status'] != 0 or fr['command'] != 0x70 or 'cip' not in fr:
                ctx.violation('reference-request-not-answered', 'connected request %r: command 0x%x status %r' % (req, fr['command'], fr['status']), wit)
                return
            ctx.count('ref:sequence-echoed')
            if fr.get('sequence') != seq:
                ctx.violation('connected-sequence-not-echoed', 'sent sequence %d, reply carries %r' % (seq, fr.get('sequence')), wit)
                return
            try:
                rep = rc.dec_reply(fr['cip'])
            except Exception as exc:
                ctx.violation('reply-not-decodable-by-reference-decoder', 'connected reply %s: %r' % (fr['cip'].hex(), exc), wit)
                return
            mm = simcheck.reply_mismatch(rep, model.apply(req))
            if mm:
                ctx.violation('reference-client-sees-other-values', 'connected %r: %s' % (req, '; '.join(mm[:2])), wit)
                return
    finally:
        c.close()


def two_originators(ctx, sim, cfg, model, rng):
    """Two connected sessions alive at once that present the same connection triplet (two instances of one client implementation use
    the same vendor id / serial number constants and may draw the same 16-bit connection serial): closing one must leave the other alone."""
    from vlib import simdrv, refcodec as rc, simcheck
    from cpppo.server.enip import device
    wit = {'config': cfg, 'two_originators': True}
    triplet = {'connection_serial': rng.randrange(65536), 'O_vendor': 0x1337, 'O_serial': 42}
    if not drained(device):
        ctx.inconclusive_because('forward-open entries of earlier, closed sessions still present after 10 s')
        return
    clients, conns = [], []
    try:
        for k in range(2):
            c = simdrv.RawClient(sim.address)
            c.register()
            clients.append(c)
            otid = rng.randrange(1, 2**32)
            fo = {'path': {'segment': [{'class': 6}, {'instance': 1}]},
                  'forward_open': dict({'priority_time_tick': 10, 'timeout_ticks': 5,
                                        'O_T': {'size': 500, 'type': 2, 'priority': 0, 'variable': 1, 'redundant': 0, 'RPI': 2000000, 'connection_ID': 0},
                                        'T_O': {'size': 500, 'type': 2, 'priority': 0, 'variable': 1, 'redundant': 0, 'RPI': 2000000, 'connection_ID': otid},
                                        'connection_timeout_multiplier': 0, 'transport_class_triggers': 0xA3,
                                        'connection_path': {'segment': [{'port': 1, 'link': 0}, {'class': 2}, {'instance': 1}]}}, **triplet)}
            fr = c.rr(rc.enc_request(fo), wrap=False)
            rep = rc.dec_reply(fr['cip']) if fr and fr['status'] == 0 else None
            if not rep or rep['status'] != 0:
                ctx.violation('forward-open-refused', 'second originator with the same triplet: Forward Open -> %r' % (rep and rep['status'],), wit)
                return
            conns.append(rep['forward_open']['O_T']['connection_ID'])
        n_before = len(device.Connection_Manager.forwards)
        # A closes explicitly
        fc = {'path': {'segment': [{'class': 6}, {'instance': 1}]},
              'forward_close': dict({'priority_time_tick': 10, 'timeout_ticks': 5, 'connection_path': {'segment': [{'port': 1, 'link': 0}, {'class': 2}, {'instance': 1}]}}, **triplet)}
        fr = clients[0].rr(rc.enc_request(fc), wrap=False)
        if fr is None or fr['status'] != 0:
            ctx.violation('forward-close-refused', 'Forward Close of the first originator: %r' % (fr and fr['status'],), wit)
            return
        ctx.count('ref:two-originators')
        ctx.case(('two-originators', repr(cfg), triplet['connection_serial']))
        n_after = len(device.Connection_Manager.forwards)
        if n_after != n_before - 1:
            ctx.violation('forward-open-table-wrong', 'two sessions with the same triplet: %d entries before the first one closed, %d after (its own entry, and only that, must go)' % (n_before, n_after), wit)
            return
        # B carries on over its connection: a known tag, then an unknown one (must be a CIP error on a session that stays usable)
        name, t, n, _ = cfg[0]
        seq = 7
        for req, expect_ok in (({'path': {'segment': [{'symbolic': name}]}, 'read_tag': {'elements': 1}}, True),
                               ({'path': {'segment': [{'symbolic': 'NoSuchTag'}]}, 'read_tag': {'elements': 1}}, False),
                               ({'path': {'segment': [{'symbolic': name}]}, 'read_tag': {'elements': 1}}, True)):
            seq += 1
            clients[1].send(rc.unit_frame(rc.enc_request(req), clients[1].session, conns[1], seq, struct.pack('<Q', seq)))
            raw = clients[1].recv_frame()
            fr = rc.dec_frame(raw) if raw else None
            if fr is None or fr['status'] != 0 or not fr.get('cip'):
                ctx.violation('surviving-connection-disturbed-by-other-close', 'after another session with the same triplet sent Forward Close, the surviving connection got %s for %r' % (
                    'no reply' if fr is None else 'encapsulation status 0x%02x' % fr['status'], req), wit)
                return
            rep = rc.dec_reply(fr['cip'])
            if expect_ok:
                mm = simcheck.reply_mismatch(rep, model.apply(req))
                if mm:
                    ctx.violation('surviving-connection-disturbed-by-other-close', '%r: %s' % (req, '; '.join(mm[:2])), wit)
                    return
            elif rep['status'] in (0, 6):
                ctx.violation('surviving-connection-disturbed-by-other-close', 'read of an unknown tag succeeded: %r' % (rep,), wit)
                return
    finally:
        for c in clients:
            c.close()


def run(ctx):
    try:
        import pylogix            # noqa: F401
    except Exception as exc:
        ctx.inconclusive_because('pylogix cannot be imported: %r' % (exc,))
        return
    from vlib import simdrv, reqgen, arraymodel
    rng = ctx.rng
    quick = ctx.tier == 'quick'
    k = 0
    while not ctx.expired():
        k += 1
        if quick and k > 4:
            break
        cfg = gen_cfg(rng)
        sim = simdrv.TcpSim(reqgen.argv_of(cfg))
        model = arraymodel.Model(cfg)
        try:
            for _ in range(2 if quick else 4):
                pylogix_session(ctx, sim, cfg, model, rng, 25 if quick else 40)
                reference_session(ctx, sim, cfg, model, rng, 10 if quick else 20)
                two_originators(ctx, sim, cfg, model, rng)
        finally:
            sim.stop()


def replay(ctx, witness):
    ctx.inconclusive_because('re-run by seed')

"""Ways to drive the real simulator.

Sim      -- in-process frame pipeline: bytes -> enip_machine -> logix.process -> enip_encode, the same
            calls enip_srv_tcp makes per frame; configurations are reset between instances.
TcpSim   -- the real enip.main.main(argv) in a daemon thread of this process (port 0, address via
            server.control); tag objects stay inspectable in-process.
RawClient-- socket client built on vlib.refcodec only (no cpppo code on the client side).
"""
from __future__ import annotations
import contextlib, socket, struct, threading, time

from . import refcodec as rc

TYPE_ZERO = {'BOOL': False, 'REAL': 0.0, 'LREAL': 0.0, 'SSTRING': '', 'STRING': ''}


def _mods():
    import cpppo
    from cpppo.server.enip import parser, device, logix, ucmm
    from cpppo.server.enip import main as enip_main
    return cpppo, parser, device, logix, ucmm, enip_main


def reset_globals():
    cpppo, parser, device, logix, ucmm, enip_main = _mods()
    device.lookup_reset()
    logix.setup_reset()
    dict.clear(enip_main.tags)
    dict.clear(enip_main.options)
    try:
        dict.clear(enip_main.connections)
    except Exception:
        pass
    device.Connection_Manager.forwards.clear()
    ucmm.UCMM.sessions.clear()


class Sim:
    """tags: list of (name, type_name, size, address|None); size 1 => scalar (as main() does)."""

    def __init__(self, tags, UCMM_class=None, max_bytes=None, attribute_class=None):
        cpppo, parser, device, logix, ucmm, enip_main = _mods()
        self.cpppo, self.parser, self.device, self.logix = cpppo, parser, device, logix
        reset_globals()
        self.tags = cpppo.dotdict()
        self.attr = {}
        Attr = attribute_class or device.Attribute
        byaddr = {}
        for name, tname, size, address in tags:
            cls = getattr(parser, tname)
            zero = TYPE_ZERO.get(tname, 0)
            path = None
            attribute = None
            if address:
                segs, elm, cnt = device.parse_path_elements('@' + address)
                path = {'segment': segs}
                key = device.resolve(path, attribute=True)
                attribute = byaddr.get(key)
            if attribute is None:
                attribute = Attr(name, cls, default=zero if size == 1 else [zero] * size)
                if address:
                    byaddr[key] = attribute
            te = cpppo.dotdict()
            te.attribute = attribute
            te.path = path
            te.error = 0
            dict.__setitem__(self.tags, name, te)
            self.attr[name] = attribute
        self.kw = dict(tags=self.tags)
        if UCMM_class is not None:
            self.kw['UCMM_class'] = UCMM_class
        self._old_max = logix.Logix.MAX_BYTES
        if max_bytes is not None:
            logix.Logix.MAX_BYTES = max_bytes
        self.session = None
        # force creation of all objects now (setup happens on the first processed frame otherwise)
        logix.setup(**self.kw)

    def close(self):
        self.logix.Logix.MAX_BYTES = self._old_max

    def __enter__(self):
        return self

    def __exit__(self, *a):
        self.close()

    # -- one frame through the same calls enip_srv_tcp makes
    def frame(self, frame_bytes, addr=('10.0.0.1', 40000)):
        """-> (outcome, reply_bytes|None)   outcome in 'reply' | 'closed' (proceed False) | 'raised:<exc>'"""
        cpppo, parser, logix = self.cpppo, self.parser, self.logix
        data = cpppo.dotdict()
        source = cpppo.peekable(bytes(frame_bytes))
        try:
            with parser.enip_machine(context='enip') as m:
                with contextlib.closing(m.run(path='request', source=source, data=data)) as eng:
                    for _ in eng:
                        pass
            proceed = logix.process(addr, data=data, **self.kw)
        except Exception as exc:
            try:
                logix.process(addr, data=cpppo.dotdict(), **self.kw)
            except Exception:
                pass
            return 'raised:%s' % type(exc).__name__, None
        if not proceed:
            return 'closed', None
        try:
            if 'input' not in data.response.enip or not data.response.enip.input:
                assert data.response.enip.status
            rpy = bytes(parser.enip_encode(data.response.enip))
        except Exception as exc:
            return 'raised:%s' % type(exc).__name__, None
        return 'reply', rpy

    def stream(self, data_bytes, addr=('10.0.0.9', 45000), step_hook=None):
        """A whole connection lifetime: the bytes arrive (in one block), then EOF.  Mirrors the loop of enip_srv_tcp:
        parse a frame, process it, encode the reply, until EOF / error / session end.
        -> (replies [bytes], how the connection ended: 'eof' | 'closed-by-server' | 'error:<exc>')"""
        cpppo, parser, logix = self.cpppo, self.parser, self.logix
        source = cpppo.rememberable()
        source.chain(bytes(data_bytes))
        replies = []
        fed_eof = False
        with parser.enip_machine(context='enip') as machine:
            while True:
                data = cpppo.dotdict()
                source.forget()
                try:
                    with contextlib.closing(machine.run(path='request', source=source, data=data)) as engine:
                        for mch, sta in engine:
                            if sta is not None:
                                continue
                            if source.peek() is None:
                                if fed_eof:
                                    continue        # let the machine detect no progress, as the server does
                                source.chain(b'')
                                fed_eof = True
                except Exception as exc:
                    try:
                        logix.process(addr, data=cpppo.dotdict(), **self.kw)
                    except Exception:
                        pass
                    return replies, 'error:%s' % type(exc).__name__
                had_request = 'request' in data
                try:
                    proceed = logix.process(addr, data=data, **self.kw)
                    if not proceed:
                        return replies, ('closed-by-server' if had_request else 'eof')
                    if 'input' not in data.response.enip or not data.response.enip.input:
                        assert data.response.enip.status
                    rpy = bytes(parser.enip_encode(data.response.enip))
                    replies.append(rpy)
                    if data.response.enip.status:
                        logix.process(addr, data=cpppo.dotdict(), **self.kw)
                        return replies, 'closed-by-server'
                except Exception as exc:
                    try:
                        logix.process(addr, data=cpppo.dotdict(), **self.kw)
                    except Exception:
                        pass
                    return replies, 'error:%s' % type(exc).__name__

    def register(self, addr=('10.0.0.1', 40000)):
        out, rpy = self.frame(rc.register_frame(), addr)
        assert out == 'reply', out
        self.session = rc.dec_header(rpy)['session_handle']
        return self.session

    def cip(self, cip_bytes, addr=('10.0.0.1', 40000), context=b'\x00' * 8, wrap=True):
        """Send one CIP request in SendRRData; Read Tag Fragmented etc. are wrapped in the 0x52 Unconnected Send
        (a bare 0x52 service byte is, by construction, parsed as the wrapper).
        -> (enip_status, cip_reply_bytes|None, outcome)"""
        if self.session is None:
            self.register(addr)
        payload = rc.enc_unconnected_send(cip_bytes) if wrap else cip_bytes
        out, rpy = self.frame(rc.rr_frame(payload, self.session, context), addr)
        if out != 'reply':
            return None, None, out
        fr = rc.dec_frame(rpy)
        return fr['status'], fr.get('cip'), out

    def state(self):
        out = {}
        for k, a in self.attr.items():
            v = a.value
            out[k] = list(v) if not a.scalar else v
        return out


class TcpSim:
    """The real main(argv) in a thread.  argv: tag arguments and options as on the command line."""

    def __init__(self, argv, extra_kwds=None, wait=20.0):
        cpppo, parser, device, logix, ucmm, enip_main = _mods()
        self.cpppo, self.enip_main, self.device, self.logix = cpppo, enip_main, device, logix
        reset_globals()
        self.control = cpppo.apidict(2.0, {'done': False})
        self.server = {'control': self.control}
        kw = dict(extra_kwds or {})
        self.error = None

        def target():
            try:
                enip_main.main(argv=['-a', 'localhost:0', '--no-config'] + list(argv), server=self.server, **kw)
            except BaseException as exc:       # noqa
                self.error = exc
        self.thread = threading.Thread(target=target, daemon=True)
        self.thread.start()
        t0 = time.monotonic()
        self.address = None
        while time.monotonic() - t0 < wait:
            a = dict.get(self.control, 'address')
            if a:
                self.address = tuple(a)
                break
            if self.error is not None or not self.thread.is_alive():
                break
            time.sleep(0.01)
        if not self.address:
            raise RuntimeError('simulator did not start: %r' % (self.error,))

    def attributes(self):
        return {k: v.attribute for k, v in dict.items(self.enip_main.tags)}

    def state(self):
        out = {}
        for k, a in self.attributes().items():
            v = a.value
            out[k] = list(v) if not a.scalar else v
        return out

    def connections(self):
        try:
            return len(self.enip_main.connections)
        except Exception:
            return -1

    def stop(self):
        dict.__setitem__(self.control, 'done', True)
        self.thread.join(10)

    def __enter__(self):
        return self

    def __exit__(self, *a):
        self.stop()


class RawClient:
    def __init__(self, address, timeout=5.0):
        self.sock = socket.create_connection(address, timeout=timeout)
        self.sock.setsockopt(socket.IPPROTO_TCP, socket.TCP_NODELAY, 1)
        self.buf = b''
        self.session = 0
        self.closed = False

    def send(self, b):
        self.sock.sendall(b)

    def recv_frame(self, timeout=5.0):
        """-> frame bytes, or None on EOF/timeout (self.closed tells which)"""
        self.sock.settimeout(timeout)
        while True:
            frames, rest = rc.split_frames(self.buf)
            if frames:
                self.buf = self.buf[len(frames[0]):]
                return frames[0]
            try:
                chunk = self.sock.recv(65536)
            except socket.timeout:
                return None
            except OSError:
                self.closed = True
                return None
            if not chunk:
                self.closed = True
                return None
            self.buf += chunk

    def register(self, context=b'REGISTER'):
        self.send(rc.register_frame(context))
        fr = self.recv_frame()
        if fr is None:
            raise RuntimeError('no reply to Register Session')
        h = rc.dec_frame(fr)
        self.session = h['session_handle']
        return h

    def rr(self, cip, context=b'\x00' * 8, wrap=True, timeout=5.0):
        """-> decoded reply frame dict (with 'cip'), or None"""
        payload = rc.enc_unconnected_send(cip) if wrap else cip
        self.send(rc.rr_frame(payload, self.session, context))
        fr = self.recv_frame(timeout)
        return rc.dec_frame(fr) if fr is not None else None

    def close(self):
        try:
            self.sock.close()
        except Exception:
            pass

#!/bin/bash
# usage: tools/sweep.sh <tier> <seed>...   -- runs every check for each seed, prints one line per run
tier="$1"; shift
cd "$(dirname "${BASH_SOURCE[0]}")/.." || exit 2
[ -d .deps/icontract ] || ./setup.sh >/dev/null 2>&1
for seed in "$@"; do
  for i in 01 02 03 04 05 06 07 08 09 10 11 12 13 14 15 16 17 18 19 20; do
    start=$(date +%s)
    out="$(VERIF_SEED=$seed ./check C$i --tier "$tier" 2>&1)"; rc=$?
    echo "seed=$seed C$i rc=$rc $(( $(date +%s) - start ))s :: $(echo "$out" | grep -E '^OK|^FAIL|^INCONCLUSIVE|mechanism=' | head -3 | tr '\n' '|' | cut -c1-400)"
  done
done

"""C05 -- invalid requests are refused without side effects; accepted writes stay readable.

Monitors: snapshot equality of the complete tag state around every refused request; expected
failure codes for the Logix tag services; after every acknowledged write a read-back on the same
session, on a fresh session and a sweep of every tag (a tag that can no longer be read is a
violation by itself).
"""
from __future__ import annotations

PROPERTY = 'C05'
META = {
    'level': 'exploration',
    'technique': 'runtime monitors on request histories: before/after state snapshot equality for refused requests, failure-code oracle, read-back + full-sweep readability oracle after acknowledged writes',
    'text': 'A deterministic matrix covers every (tag type, wire type) pair with small values, the value boundaries of every allowed pair at every width, and Set Attribute Single payloads one byte / one element shorter and longer than the attribute. From random tag states the simulator receives requests that straddle every bound (index len-1/len/len+1, zero counts, counts beyond the tag, index+count past the end, fragment '
            'offsets beyond the range), name unknown tags / classes / instances / attributes, use every (source type, tag type) pair inside and outside the compatibility relation, and - for '
            'every allowed pair - carry the extreme values of the source type into narrower or differently signed tags. A refused request (CIP status not 0x00/0x06, or a non-zero encapsulation '
            'status) must leave the raw stored values of every tag identical and, for the tag services, carry 0xFF/[0x2105] (range), 0xFF/[0x2107] (type) or 0x05 (unknown). After every '
            'acknowledged write the written range is read back on the same and on a fresh session and must equal the written values as represented in the tag type; every tag is then swept '
            'and must remain readable. A part of the histories runs over TCP against the real main() so that the effect on other sessions is observed.',
    'note': 'Exact failure codes are required only for the Logix tag services; attribute services only need some failure indication. A request that is both out of range and of the wrong type may carry either code.',
}
LEVEL = META['level']
RULE = ('a case = one request with its before/after snapshots (and, for accepted writes, the read-backs); distinct by (configuration, request bytes, position); '
        'non-trivial = the request was refused with the state compared, or accepted with the read-back compared')
ASSUMPTIONS = ['reply budget 488 bytes', 'in-process sessions are distinguished by peer address, as the simulator does']
REQUIRED = ['type-matrix:value-boundaries', 'type-matrix:attribute-sizes', 'type-matrix:pairs', 'refused:range', 'refused:type', 'refused:unknown', 'refused:extreme-value', 'accepted:write', 'monitor:snapshot-equal', 'monitor:readback-same-session',
            'monitor:readback-fresh-session', 'monitor:sweep', 'bound:index==len', 'bound:count==0', 'bound:index+count==len+1', 'pair:allowed-narrower', 'pair:disallowed',
            'tcp:histories', 'tcp:other-session-still-served', 'code:0x2105', 'code:0x2107', 'code:0x05']
TIMEOUT = {'quick': 300, 'thorough': 2400}
SOFT = {'quick': 35, 'thorough': 600}


def shards(tier):
    return 4 if tier == 'quick' else 16


def extreme_write(rng, cfg):
    """an allowed (source type, tag type) pair with a value only the source type can represent"""
    from vlib import reqgen, refcodec as rc, gen
    from vlib.arraymodel import can_hold, represent
    cands = []
    for e in cfg:
        for s in reqgen.FIXED_TYPES:
            if s != e[1] and s != 'BOOL' and e[1] in reqgen.FIXED_TYPES and can_hold(e[1], s) and s in gen.INT_RANGES:
                for v in gen.INT_RANGES[s]:
                    try:
                        represent(e[1], v)
                    except Exception:
                        cands.append((e, s, v))
    if not cands:
        return None
    e, s, v = rng.choice(cands)
    i = rng.randrange(e[2])
    segs = reqgen.path_for(rng, e, i if i or rng.random() < 0.5 else None)
    vals = [v] if rng.random() < 0.6 or e[2] - i < 2 else [1, v]
    return {'path': {'segment': segs}, 'write_tag': {'type': rc.NAME2CODE[s], 'elements': len(vals), 'data': vals}}


def bound_note(ctx, model, req):
    tag, i = model.find(req['path']['segment'])
    if tag is None:
        return
    for k in ('read_tag', 'read_frag', 'write_tag', 'write_frag'):
        if k in req:
            n = req[k].get('elements', len(req[k].get('data', ())))
            if i == tag.n:
                ctx.count('bound:index==len')
            if n == 0:
                ctx.count('bound:count==0')
            if i + n == tag.n + 1:
                ctx.count('bound:index+count==len+1')
            if i == tag.n - 1 and n == 1:
                ctx.count('bound:last-element')


class Session:
    """one simulator + helpers, in-process or TCP"""

    def __init__(self, cfg, tcp):
        from vlib import simdrv, reqgen
        self.tcp, self.cfg = tcp, cfg
        if tcp:
            self.sim = simdrv.TcpSim(reqgen.argv_of(cfg))
            self.main = self._client()
            self.other = self._client()
        else:
            self.sim = simdrv.Sim(cfg)
            self.fresh_n = 0

    def _client(self):
        from vlib import simdrv
        c = simdrv.RawClient(self.sim.address)
        c.register()
        return c

    def send(self, cip, which='main'):
        """-> (enip_status|None, cip reply bytes|None, outcome)"""
        if not self.tcp:
            addr = ('10.0.0.1', 40000) if which == 'main' else ('10.0.0.2', 41000)
            if which == 'fresh':
                self.fresh_n += 1
                addr = ('10.0.1.1', 42000 + self.fresh_n)
                out, rpy = self.sim.frame(__import__('vlib.refcodec', fromlist=['x']).register_frame(), addr)
                from vlib import refcodec as rc
                sess = rc.dec_header(rpy)['session_handle']
                out, rpy = self.sim.frame(rc.rr_frame(rc.enc_unconnected_send(cip), sess), addr)
                if out != 'reply':
                    return None, None, out
                fr = rc.dec_frame(rpy)
                return fr['status'], fr.get('cip'), out
            if which == 'other':
                saved = self.sim.session
                self.sim.session = getattr(self, '_other_session', None)
                try:
                    r = self.sim.cip(cip, addr=addr)
                    self._other_session = self.sim.session
                    return r
                finally:
                    self.sim.session = saved
            return self.sim.cip(cip, addr=addr)
        if which == 'fresh':
            c = self._client()
            try:
                fr = c.rr(cip)
            finally:
                c.close()
        else:
            c = self.main if which == 'main' else self.other
            fr = c.rr(cip)
            if fr is None or fr['status'] != 0:
                # the simulator ends a session after a non-zero encapsulation status: reconnect for what follows
                closed = True
                c.close()
                if which == 'main':
                    self.main = self._client()
                else:
                    self.other = self._client()
        if fr is None:
            return None, None, 'closed'
        return fr['status'], fr.get('cip'), 'reply'

    def state(self):
        return self.sim.state()

    def close(self):
        if self.tcp:
            for c in (self.main, self.other):
                c.close()
            self.sim.stop()
        else:
            self.sim.close()


def read_all(ctx, sess, model, cfg, wit, which='main'):
    """sweep: every tag must be readable in full and equal the model -> True if fine"""
    from vlib import refcodec as rc, simcheck
    for name, tname, n, address in cfg:
        got, off = [], 0
        size = rc.size_of(tname) if tname in rc.TYPES else None
        guard = 0
        while True:
            guard += 1
            segs = [{'symbolic': s} for s in name.split('.')]
            if size is None:
                rq = {'path': {'segment': segs}, 'read_tag': {'elements': n}}
            else:
                rq = {'path': {'segment': segs}, 'read_frag': {'elements': n, 'offset': off}}
            st, rep_b, out = sess.send(rc.enc_request(rq), which)
            if st != 0 or rep_b is None:
                ctx.violation('tag-unreadable-after-accepted-write', 'tag %s can no longer be read (%s session): encapsulation status %r, outcome %s' % (name, which, st, out), wit)
                return False
            rep = rc.dec_reply(rep_b)
            if rep['status'] not in (0, 6):
                ctx.violation('tag-unreadable-after-accepted-write', 'tag %s read fails with status 0x%02x (%s session)' % (name, rep['status'], which), wit)
                return False
            key = 'read_tag' if size is None else 'read_frag'
            got.extend(rep[key]['data'])
            if rep['status'] == 0 or size is None or guard > n + 2:
                break
            off = len(got) * size
        want = model.read([{'symbolic': s} for s in name.split('.')], n, budget=10**9)
        from vlib.arraymodel import same_value
        wv = want['read_tag']['data']
        if size is not None and (len(got) != len(wv) or not all(same_value(tname, a, b) for a, b in zip(got, wv))):
            ctx.violation('sweep-values-differ', 'tag %s reads %r, model %r' % (name, got[:8], wv[:8]), wit)
            return False
    ctx.count('monitor:sweep')
    return True


def run_history(ctx, cfg, nreq, tcp, script=None):
    from vlib import reqgen, refcodec as rc, arraymodel, simcheck
    rng = ctx.rng
    model = arraymodel.Model(cfg)
    wit = {'config': cfg, 'transport': 'tcp' if tcp else 'in-process', 'history': []}
    sess = Session(cfg, tcp)
    if tcp:
        ctx.count('tcp:histories')
    accepted = 0
    try:
        for k in range(nreq):
            r = rng.random()
            if script is not None:
                label, req = script[k]
            elif r < 0.12:
                req = extreme_write(rng, cfg)
                label = 'extreme'
                if req is None:
                    label, req = reqgen.gen_request(rng, cfg, p_invalid=0.6)
            else:
                label, req = reqgen.gen_request(rng, cfg, p_invalid=0.55)
            cip = rc.enc_request(req)
            wit['history'].append(req)
            bound_note(ctx, model, req)
            before = sess.state()
            st, rep_b, out = sess.send(cip)
            after = sess.state()
            want = model.apply(req)
            real = None
            if st == 0 and rep_b is not None:
                try:
                    real = rc.dec_reply(rep_b)
                except Exception as exc:
                    ctx.violation('reply-undecodable', 'reply %s to %r: %r' % (rep_b.hex(), req, exc), wit)
                    return
            refused = real is None or real['status'] not in (0, 6)
            is_write = any(x in req for x in ('write_tag', 'write_frag', 'set_attribute_single'))
            if label in ('write-type',):
                ctx.count('pair:disallowed')
            if label == 'extreme' or (label == 'write' and is_write):
                pass
            if refused:
                ctx.count('monitor:snapshot-equal')
                if before != after or any(type(a) is not type(b) for a, b in zip(flat(before), flat(after))):
                    diff = [n for n in before if before[n] != after[n]]
                    ctx.violation('refused-request-changed-a-tag', '%s request %r was refused (%s) but tag(s) %r changed' % (
                        label, req, 'encapsulation status %r' % st if real is None else 'status 0x%02x%s' % (real['status'], simcheck.ext_text(real)), diff), wit)
                    return
                if want['status'] in (0, 6):
                    ctx.violation('valid-request-refused', '%s request %r on %r refused (%s), the array model accepts it' % (
                        label, req, cfg, 'encapsulation status %r / %s' % (st, out) if real is None else 'status 0x%02x%s' % (real['status'], simcheck.ext_text(real))), wit)
                    return
                # failure codes for the tag services
                if real is not None and want['status'] != 'fail':
                    both = label == 'write-range' and False
                    mism = simcheck.reply_mismatch(real, want)
                    if mism:
                        ctx.violation('wrong-failure-code', '%s request %r on %r: %s' % (label, req, cfg, '; '.join(mism[:2])), wit)
                        return
                    ext = (real.get('status_ext') or {}).get('data') or []
                    if real['status'] == 0x05:
                        ctx.count('code:0x05')
                    for e in ext:
                        ctx.count('code:0x%04x' % e)
                elif real is None:
                    tag, _ = model.find(req['path']['segment'])
                    if tag is not None and 'set_attribute_single' not in req and 'get_attribute_single' not in req:
                        ctx.violation('request-on-existing-tag-ends-session', '%s request %r on existing tag got no CIP reply: encapsulation status %r, outcome %s' % (label, req, st, out), wit)
                        return
                ctx.count({'read-range': 'refused:range', 'write-range': 'refused:range', 'write-type': 'refused:type', 'unknown': 'refused:unknown',
                           'extreme': 'refused:extreme-value'}.get(label, 'refused:other'))
                ctx.case((repr(cfg), cip, k, tcp))
                continue
            # ---- accepted
            if want['status'] not in (0, 6):
                key = 'invalid-request-accepted'
                if label == 'extreme':
                    key = 'unrepresentable-value-accepted'
                ctx.violation(key, '%s request %r on %r acknowledged with status 0x%02x; expected %s' % (
                    label, req, cfg, real['status'], 'a failure' if want['status'] == 'fail' else 'status 0x%02x%s' % (want['status'], simcheck.ext_text(want))), wit)
                return
            mism = simcheck.reply_mismatch(real, want)
            if mism:
                ctx.violation('reply-differs-from-array-model', '%s request %r on %r: %s' % (label, req, cfg, '; '.join(mism[:2])), wit)
                return
            if is_write:
                accepted += 1
                ctx.count('accepted:write')
                tag, i = model.find(req['path']['segment'])
                w = req.get('write_tag') or req.get('write_frag')
                if w and rc.CODE2NAME[w['type']] != tag.tname:
                    ctx.count('pair:allowed-narrower')
                # read back what was written: same session, fresh session
                if w:
                    n = len(w['data'])
                    start = i + (w.get('offset', 0) // tag.size if tag.size else 0)
                    segs = [s for s in req['path']['segment'] if 'element' not in s] + [{'element': start}]
                    rq = {'path': {'segment': segs}, 'read_tag': {'elements': n}}
                    for which, cname in (('main', 'monitor:readback-same-session'), ('fresh', 'monitor:readback-fresh-session')):
                        st2, rb, out2 = sess.send(rc.enc_request(rq), which)
                        if st2 != 0 or rb is None:
                            ctx.violation('tag-unreadable-after-accepted-write', 'after acknowledged %r the read-back %r (%s session) failed: encapsulation status %r, outcome %s' % (
                                req, rq, which, st2, out2), wit)
                            return
                        rr = rc.dec_reply(rb)
                        wantr = model.apply(rq)
                        mm = simcheck.reply_mismatch(rr, wantr)
                        if mm and not (rr['status'] == 6 and wantr['status'] == 6):
                            ctx.violation('readback-differs-from-written', 'after acknowledged %r the read-back (%s session): %s' % (req, which, '; '.join(mm[:2])), wit)
                            return
                        ctx.count(cname)
                if accepted % 5 == 0:
                    if not read_all(ctx, sess, model, cfg, wit, 'other' if tcp else 'main'):
                        return
                    if tcp:
                        ctx.count('tcp:other-session-still-served')
            ctx.case((repr(cfg), cip, k, tcp))
        read_all(ctx, sess, model, cfg, wit)
        if ctx.want_sample():
            ctx.sample({'config': reqgen.argv_of(cfg), 'transport': wit['transport'], 'requests': wit['history'][:3]})
    finally:
        sess.close()


def flat(state):
    for k in sorted(state):
        v = state[k]
        if isinstance(v, list):
            for x in v:
                yield x
        else:
            yield v


def type_matrix(ctx):
    """every (tag type, source type) pair once with small values, so that only the type pair decides: deterministic, not sampled"""
    from vlib import refcodec as rc, arraymodel
    from vlib import reqgen
    types = list(reqgen.ALL_TYPES)          # the 13 element types the simulator supports (WORD/DWORD are not tag data types of this library)
    cfg = [('T_' + t, t, 3, None) for t in types]
    script = []
    for name, t, n, _ in cfg:
        for src in types:
            v = 'a' if src in ('SSTRING', 'STRING') else 1.0 if src in ('REAL', 'LREAL') else 1
            for vals in ([v], [v, v]):
                req = {'path': {'segment': [{'symbolic': name}]}, 'write_tag': {'type': rc.NAME2CODE[src], 'elements': len(vals), 'data': list(vals)}}
                script.append(('write' if arraymodel.can_hold(t, src) else 'write-type', req))
    ctx.count('type-matrix:pairs', len(script) // 2)
    # value boundaries of every allowed (tag type, wider or differently signed source type) pair: the tag's own extremes must be
    # accepted, one beyond them refused -- at every width, including 64 bits, where a limit computed in floating point is off by one
    from vlib import gen
    for name, t, n, _ in cfg:
        if t not in gen.INT_RANGES:
            continue
        lo, hi = gen.INT_RANGES[t]
        for src in types:
            if src == t or src not in gen.INT_RANGES or src == 'BOOL' or not arraymodel.can_hold(t, src):
                continue
            slo, shi = gen.INT_RANGES[src]
            for v in (hi, hi + 1, lo, lo - 1, hi - 1, lo + 1):
                if slo <= v <= shi:
                    req = {'path': {'segment': [{'symbolic': name}, {'element': 1}]}, 'write_tag': {'type': rc.NAME2CODE[src], 'elements': 1, 'data': [v]}}
                    script.append(('write' if lo <= v <= hi else 'extreme', req))
                    ctx.count('type-matrix:value-boundaries')
    # Set Attribute Single sizes around the exact size of every fixed-size tag (odd element counts, so that a one-byte excess on a
    # single-byte type is one whole extra element)
    acfg = [('A_' + t, t, 3, '0x93/9/%d' % (k + 1)) for k, t in enumerate(types) if t in rc.TYPES]
    ascript = []
    for name, t, n, address in acfg:
        exact = n * rc.size_of(t)
        for ln in (exact - 1, exact, exact + 1, exact + rc.size_of(t), 0, exact * 2):
            if ln < 0:
                continue
            req = {'path': {'segment': [{'class': 0x93}, {'instance': 9}, {'attribute': int(address.rsplit('/', 1)[1])}]}, 'set_attribute_single': {'data': [(7 * j + 1) % 256 for j in range(ln)]}}
            ascript.append(('attr', req))
            ctx.count('type-matrix:attribute-sizes')
    run_history(ctx, cfg, len(script), False, script=script)
    run_history(ctx, acfg, len(ascript), False, script=ascript)


def run(ctx):
    from vlib import reqgen
    rng = ctx.rng
    quick = ctx.tier == 'quick'
    if ctx.shard == 0:
        type_matrix(ctx)
    i = 0
    while not ctx.expired():
        i += 1
        if quick and i > 16:
            break
        cfg = reqgen.gen_config(rng, sizes=[1, 1, 2, 3, 5, 8, 16, 40] + ([300] if i % 3 == 0 else []))
        if i % 2:
            cfg = cfg[:5] + [('BigOne', rng.choice(['INT', 'DINT', 'LINT', 'REAL']), rng.choice([300, 500, 700]), None)]
        cfg = [(n, t, min(s, 5) if t in ('SSTRING', 'STRING') else s, a) for n, t, s, a in cfg]
        run_history(ctx, cfg, 40 if quick else rng.choice([40, 80]), tcp=(i % 4 == 0))


def replay(ctx, witness):
    ctx.inconclusive_because('C05 witnesses carry the full history for the reader; re-run by seed')

"""Boundary-biased generators of protocol field values (all driven by the rng handed in)."""
from __future__ import annotations
import struct
from . import refcodec as rc

INT_RANGES = {
    'SINT': (-2**7, 2**7 - 1), 'INT': (-2**15, 2**15 - 1), 'DINT': (-2**31, 2**31 - 1), 'LINT': (-2**63, 2**63 - 1),
    'USINT': (0, 2**8 - 1), 'UINT': (0, 2**16 - 1), 'UDINT': (0, 2**32 - 1), 'ULINT': (0, 2**64 - 1),
    'WORD': (0, 2**16 - 1), 'DWORD': (0, 2**32 - 1),
}
NUMERIC = ['BOOL', 'SINT', 'INT', 'DINT', 'LINT', 'USINT', 'UINT', 'UDINT', 'ULINT', 'REAL', 'LREAL']
FLOATS32 = [0.0, -0.0, 1.0, -1.0, 1.5, 3.4028234663852886e38, -3.4028234663852886e38, 1.1754943508222875e-38, 1e-45, float('inf'), float('-inf'), 0.1, 16777217.0,
            # around the widths of the integer types: a float treated as an integer anywhere on its way shows here
            2147483648.0, -2147483648.0, 3e9, 4294967296.0, 4294967295.0, 9.223372036854775808e18, 1.8446744073709552e19, 32768.0, 65536.0, 255.5, -128.5]
FLOATS64 = [0.0, -0.0, 1.0, -1.0, 1e308, -1e308, 5e-324, 2.2250738585072014e-308, float('inf'), float('-inf'), 0.1, 1 / 3, 9007199254740993.0,
            2147483648.0, -2147483649.0, 3e9, 4294967296.5, 9.223372036854775808e18, 1e19, 1.8446744073709552e19, 2.0 ** 53 + 2, 65535.5]


def f32(x):
    return struct.unpack('<f', struct.pack('<f', x))[0]


def intval(rng, lo, hi):
    r = rng.random()
    if r < 0.5:
        cands = [lo, lo + 1, hi, hi - 1, 0, 1, -1, (lo + hi) // 2]
        v = rng.choice(cands)
        return min(hi, max(lo, v))
    return rng.randint(lo, hi)


def value(rng, tname):
    if tname == 'BOOL':
        return rng.choice([True, False])
    if tname in INT_RANGES:
        return intval(rng, *INT_RANGES[tname])
    if tname == 'REAL':
        return f32(rng.choice(FLOATS32)) if rng.random() < 0.5 else f32(rng.uniform(-1e6, 1e6))
    if tname == 'LREAL':
        return rng.choice(FLOATS64) if rng.random() < 0.5 else rng.uniform(-1e12, 1e12)
    if tname == 'SSTRING':
        return text(rng, 255)
    if tname == 'STRING':
        return text(rng, 2000)
    raise ValueError(tname)


def text(rng, maxlen):
    n = rng.choice([0, 1, 2, 3, 4, 7, 8, 31, 32, 33, 254, 255, 256, 1000, 65535])
    n = min(n, maxlen)
    if rng.random() < 0.3:
        n = rng.randrange(0, min(maxlen, 64) + 1)
    alphabet = 'abcXYZ019_ .é\xff\x01' if rng.random() < 0.3 else 'abcdefghijklmnopqrstuvwxyzABCXYZ0123456789_'
    return ''.join(rng.choice(alphabet) for _ in range(n))


def symbol_name(rng):
    n = rng.choice([1, 2, 3, 4, 5, 6, 7, 8, 15, 16, 39, 40, 41, 254, 255]) if rng.random() < 0.5 else rng.randrange(1, 20)
    alphabet = 'abcdefghijklmnopqrstuvwxyzABCDEFGHIJKLMNOPQRSTUVWXYZ0123456789_'
    return ''.join(rng.choice(alphabet) for _ in range(n))


def logical_value(rng, name):
    r = rng.random()
    hi = 0xFFFFFFFF if name == 'element' else 0xFFFF
    if r < 0.5:
        return min(hi, rng.choice([0, 1, 2, 0xFE, 0xFF, 0x100, 0x101, 0xFFFE, 0xFFFF, 0x10000, 0x10001, 0xFFFFFFFE, 0xFFFFFFFF]))
    return rng.randrange(0, rng.choice([0x100, 0x10000, hi + 1]))


def port_segment(rng):
    port = rng.choice([1, 2, 14, 15, 16, 255, 256, 65535]) if rng.random() < 0.6 else rng.randrange(1, 65536)
    if rng.random() < 0.55:
        link = rng.choice([0, 1, 254, 255]) if rng.random() < 0.5 else rng.randrange(256)
    else:
        link = rng.choice(['1.2.3.4', '10.0.0.1', '192.168.100.200', '::1', '2001:db8::1', 'plc', 'ab'])
    return {'port': port, 'link': link}


def segment(rng, kinds=('class', 'instance', 'attribute', 'element', 'connection', 'symbolic', 'port')):
    k = rng.choice(kinds)
    if k == 'symbolic':
        return {'symbolic': symbol_name(rng)}
    if k == 'port':
        return port_segment(rng)
    return {k: logical_value(rng, k)}


def epath(rng, maxseg=8, kinds=('class', 'instance', 'attribute', 'element', 'connection', 'symbolic', 'port')):
    n = rng.choice([0, 1, 1, 2, 2, 3, 4, maxseg])
    segs = []
    total = 0
    for _ in range(n):
        s = segment(rng, kinds)
        ln = len(rc.enc_segment(s))
        if total + ln > 510:            # the size byte counts words: 255 words max
            break
        total += ln
        segs.append(s)
    return segs


def tag_path(rng):
    """a path as a Logix client would send (the size byte counts words: at most 510 bytes of segments)"""
    while True:
        segs = _tag_path(rng)
        if sum(len(rc.enc_segment(s)) for s in segs) <= 510:
            return segs


def _tag_path(rng):
    if rng.random() < 0.6:
        segs = [{'symbolic': symbol_name(rng)}]
        if rng.random() < 0.2:
            segs.append({'symbolic': symbol_name(rng)})
    else:
        segs = [{'class': logical_value(rng, 'class')}, {'instance': logical_value(rng, 'instance')}]
        if rng.random() < 0.7:
            segs.append({'attribute': logical_value(rng, 'attribute')})
    if rng.random() < 0.6:
        segs.append({'element': logical_value(rng, 'element')})
    return segs


def route_path(rng):
    n = rng.choice([0, 1, 1, 1, 2, 3])
    return [port_segment(rng) for _ in range(n)]


def status(rng):
    st = rng.choice([0, 0, 0, 0x04, 0x05, 0x06, 0x08, 0x13, 0x16, 0x1E, 0x26, 0xFF])
    ext = []
    if st and rng.random() < 0.6:
        ext = [rng.choice([0, 0x2104, 0x2105, 0x2107, 0xFFFF, rng.randrange(65536)]) for _ in range(rng.choice([1, 1, 2, 3]))]
    return st, ext


def typed_values(rng, tname, n=None):
    if n is None:
        n = rng.choice([1, 1, 2, 3, 5, 16, 60])
    if tname in ('SSTRING', 'STRING'):
        n = min(n, 4)
        return [text(rng, 80 if tname == 'SSTRING' else 120) for _ in range(n)]
    return [value(rng, tname) for _ in range(n)]

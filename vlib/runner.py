"""Driver shared by all checks:  shards -> worker subprocesses -> merge -> classify -> evidence.

A check module (checks/cXX.py) provides

    PROPERTY   'C07'
    LEVEL      'exploration' | 'fault_enumeration'
    RULE       text: how cases are generated and what makes one distinct / non-trivial
    ASSUMPTIONS list of text
    def shards(tier) -> int                       number of independent worker processes
    def run(ctx)                                  drive the workload, feed the monitors
    def replay(ctx, witness)        (optional)    re-execute one recorded witness
    def conclude(merged) -> [reason, ...]  (optional)   inconclusive reasons from merged counters
    REQUIRED   (optional) list of counter names that must be > 0 or the run is inconclusive
    TIMEOUT    (optional) {'quick': s, 'thorough': s} wall-clock watchdog (=> inconclusive only)

Verdicts: exit 0 held / 1 violated / 2 inconclusive.
"""
from __future__ import annotations
import argparse, hashlib, importlib, json, os, random, subprocess, sys, time, traceback

HERE = os.path.dirname(os.path.dirname(os.path.abspath(__file__)))
EVID = os.path.join(HERE, 'evidence')
REPLAY_DIR = os.path.join(EVID, 'replay')
KNOWN = os.path.join(HERE, 'known_findings.json')

MAX_SAMPLES = 12
MAX_VIOL_PER_KEY = 5


def jsonable(o):
    if isinstance(o, (bytes, bytearray)):
        return {'hex': bytes(o).hex()}
    if isinstance(o, dict):
        return {str(k): jsonable(v) for k, v in o.items()}
    if isinstance(o, (list, tuple)):
        return [jsonable(v) for v in o]
    if isinstance(o, set):
        return sorted(jsonable(v) for v in o)
    if isinstance(o, float):
        if o != o or o in (float('inf'), float('-inf')):
            return repr(o)
        return o
    if isinstance(o, (int, str, bool)) or o is None:
        return o
    return repr(o)


def unjson(o):
    """Inverse of jsonable for the {'hex':..} convention."""
    if isinstance(o, dict):
        if set(o.keys()) == {'hex'}:
            return bytes.fromhex(o['hex'])
        return {k: unjson(v) for k, v in o.items()}
    if isinstance(o, list):
        return [unjson(v) for v in o]
    return o


def h64(obj) -> int:
    if not isinstance(obj, (bytes, bytearray)):
        obj = repr(obj).encode('utf-8', 'backslashreplace')
    return int.from_bytes(hashlib.blake2b(obj, digest_size=8).digest(), 'big')


class Ctx:
    """What a check module's run() sees."""

    def __init__(self, prop, tier, seed, shard, nshards, deadline):
        self.prop, self.tier, self.seed, self.shard, self.nshards = prop, tier, seed, shard, nshards
        self.rng = random.Random((seed << 16) ^ (shard * 7919) ^ h64(prop) & 0xFFFFFFFF)
        self.deadline = deadline                # monotonic time after which workloads should stop
        self.evaluations = 0
        self.hashes = set()                     # 64-bit hashes of distinct non-trivial cases
        self.distinct_enum = 0                  # distinct by construction (enumerated spaces)
        self.counters = {}
        self.samples = []
        self.violations = []                    # dicts: key, what, witness
        self.viol_counts = {}
        self.inconclusive = []
        self.exhaustive = None
        self.notes = []

    # -- bookkeeping used by the monitors
    def case(self, sig=None, nontrivial=True, n=1):
        """One execution judged by at least one monitor.  sig: hashable/repr-able descriptor used
        for distinctness; sig None => not counted as distinct."""
        self.evaluations += n
        if nontrivial and sig is not None:
            self.hashes.add(h64(sig))

    def enumerated(self, n=1):
        """n cases from an enumeration that yields every case once (distinct by construction)."""
        self.evaluations += n
        self.distinct_enum += n

    def count(self, name, n=1):
        self.counters[name] = self.counters.get(name, 0) + n

    def maxc(self, name, v):
        k = 'max:' + name
        if v > self.counters.get(k, float('-inf')):
            self.counters[k] = v

    def sample(self, obj, force=False):
        if force or len(self.samples) < MAX_SAMPLES:
            self.samples.append(jsonable(obj))

    def want_sample(self):
        return len(self.samples) < MAX_SAMPLES

    def violation(self, key, what, witness=None):
        """key names the *mechanism* (matched against known_findings.json), never a random value."""
        n = self.viol_counts.get(key, 0)
        self.viol_counts[key] = n + 1
        if n < MAX_VIOL_PER_KEY:
            self.violations.append({'key': key, 'what': what, 'witness': jsonable(witness)})

    def inconclusive_because(self, reason):
        if reason not in self.inconclusive:
            self.inconclusive.append(reason)

    def time_left(self):
        return self.deadline - time.monotonic()

    def expired(self):
        return time.monotonic() > self.deadline

    def split(self, seq):
        """This shard's share of an enumerable sequence (round-robin)."""
        for i, x in enumerate(seq):
            if i % self.nshards == self.shard:
                yield x

    def result(self):
        return {'evaluations': self.evaluations, 'hashes': sorted(self.hashes),
                'distinct_enum': self.distinct_enum, 'counters': self.counters,
                'samples': self.samples, 'violations': self.violations,
                'viol_counts': self.viol_counts, 'inconclusive': self.inconclusive,
                'exhaustive': self.exhaustive, 'notes': self.notes}


def budgets(mod, tier):
    t = getattr(mod, 'TIMEOUT', {})
    watchdog = t.get(tier, 240 if tier == 'quick' else 2400)
    soft = getattr(mod, 'SOFT', {}).get(tier, watchdog * 0.6)
    return watchdog, soft


def load_module(prop):
    return importlib.import_module('checks.' + prop.lower())


def worker(args):
    """Runs one shard in this process; writes its result JSON to args.out."""
    from . import env
    env.setup()
    mod = load_module(args.prop)
    watchdog, soft = budgets(mod, args.tier)
    try:
        # the parent's watchdog asks where we are before it kills us
        import faulthandler, signal
        faulthandler.register(signal.SIGUSR1, file=sys.stderr, all_threads=False)
    except Exception:
        pass
    ctx = Ctx(args.prop, args.tier, args.seed, args.shard, args.nshards, time.monotonic() + soft)
    t0 = time.time()
    try:
        if args.replay:
            with open(args.replay) as f:
                rec = json.load(f)
            mod.replay(ctx, unjson(rec['witness']))
        else:
            mod.run(ctx)
    except BaseException as exc:            # a crash of the harness is never a verdict
        ctx.inconclusive_because('harness exception in shard %d: %s' % (
            args.shard, ''.join(traceback.format_exception_only(type(exc), exc)).strip()))
        ctx.notes.append(traceback.format_exc()[-4000:])
    res = ctx.result()
    res['wall_s'] = time.time() - t0
    with open(args.out, 'w') as f:
        json.dump(res, f)
    return 0


def known_findings():
    try:
        with open(KNOWN) as f:
            return json.load(f).get('findings', [])
    except FileNotFoundError:
        return []


def merge_results(results):
    m = {'evaluations': 0, 'hashes': set(), 'distinct_enum': 0, 'counters': {}, 'samples': [],
         'violations': [], 'viol_counts': {}, 'inconclusive': [], 'exhaustive': None, 'notes': [],
         'wall_shards': []}
    for r in results:
        m['evaluations'] += r['evaluations']
        m['hashes'].update(r['hashes'])
        m['distinct_enum'] += r['distinct_enum']
        for k, v in r['counters'].items():
            if k.startswith('max:'):
                m['counters'][k] = max(m['counters'].get(k, v), v)
            else:
                m['counters'][k] = m['counters'].get(k, 0) + v
        m['violations'].extend(r['violations'])
        for k, v in r['viol_counts'].items():
            m['viol_counts'][k] = m['viol_counts'].get(k, 0) + v
        for s in r['inconclusive']:
            if s not in m['inconclusive']:
                m['inconclusive'].append(s)
        if r['exhaustive'] is not None:
            m['exhaustive'] = bool(r['exhaustive']) and (m['exhaustive'] is not False)
        m['notes'].extend(r['notes'])
        m['wall_shards'].append(round(r.get('wall_s', 0), 2))
    # round-robin samples across shards so the evidence shows variety
    pools = [list(r['samples']) for r in results]
    while len(m['samples']) < MAX_SAMPLES and any(pools):
        for p in pools:
            if p and len(m['samples']) < MAX_SAMPLES:
                m['samples'].append(p.pop(0))
    return m


def main(argv=None):
    ap = argparse.ArgumentParser(prog='check')
    ap.add_argument('prop')
    ap.add_argument('--tier', default=os.environ.get('VERIF_TIER', 'quick'), choices=['quick', 'thorough'])
    ap.add_argument('--seed', type=int, default=int(os.environ.get('VERIF_SEED', '0') or 0))
    ap.add_argument('--replay')
    ap.add_argument('--shard', type=int)
    ap.add_argument('--nshards', type=int, default=1)
    ap.add_argument('--out')
    ap.add_argument('--jobs', type=int, default=int(os.environ.get('VERIF_JOBS', '0') or 0))
    args = ap.parse_args(argv)
    args.prop = args.prop.upper()

    if args.shard is not None:
        return worker(args)

    t0 = time.time()
    sys.path.insert(0, HERE)
    from . import env
    env.ensure_deps()
    global EVID, REPLAY_DIR
    if env.repo_path() != os.path.realpath('/repo'):
        # a scratch tree (mutant self-test): never overwrite the evidence of the real tree
        EVID = os.path.join(HERE, 'evidence', '.scratch')
        REPLAY_DIR = os.path.join(EVID, 'replay')
    mod = load_module(args.prop)
    watchdog, soft = budgets(mod, args.tier)
    nsh = 1 if args.replay else max(1, int(mod.shards(args.tier)))
    jobs = args.jobs or min(nsh, os.cpu_count() or 4)
    os.makedirs(REPLAY_DIR, exist_ok=True)
    tmpd = os.path.join(EVID, '.tmp-%s-%d' % (args.prop, os.getpid()))
    os.makedirs(tmpd, exist_ok=True)

    pending = list(range(nsh))
    running = {}
    results, inconclusive = [], []
    try:
        while pending or running:
            while pending and len(running) < jobs:
                i = pending.pop(0)
                out = os.path.join(tmpd, 'shard%d.json' % i)
                cmd = [sys.executable, '-m', 'vlib.runner', args.prop, '--tier', args.tier, '--seed',
                       str(args.seed), '--shard', str(i), '--nshards', str(nsh), '--out', out]
                if args.replay:
                    cmd += ['--replay', args.replay]
                log = open(os.path.join(tmpd, 'shard%d.log' % i), 'wb')
                p = subprocess.Popen(cmd, cwd=HERE, stdout=log, stderr=subprocess.STDOUT,
                                     start_new_session=True, env=dict(os.environ, VERIF_TMP=tmpd))
                running[i] = (p, out, time.monotonic(), log)
            time.sleep(0.05)
            for i, (p, out, ts, log) in list(running.items()):
                rc = p.poll()
                if rc is None:
                    if time.monotonic() - ts > watchdog:
                        where = ''
                        try:
                            import signal
                            os.kill(p.pid, signal.SIGUSR1)
                            time.sleep(0.5)
                            with open(os.path.join(tmpd, 'shard%d.log' % i), 'rb') as f:
                                txt = f.read()[-6000:].decode('utf-8', 'replace')
                            k = txt.rfind('most recent call first')
                            if k >= 0:
                                where = ' -- worker was at: ' + ' | '.join(l.strip() for l in txt[k:].splitlines()[1:7])
                        except Exception:
                            pass
                        try:
                            os.killpg(p.pid, 9)
                        except Exception:
                            p.kill()
                        p.wait()
                        log.close()
                        del running[i]
                        inconclusive.append('watchdog (%ds) fired on shard %d%s' % (watchdog, i, where))
                    continue
                log.close()
                del running[i]
                # make sure nothing the shard started (servers) outlives it
                try:
                    os.killpg(p.pid, 9)
                except Exception:
                    pass
                try:
                    with open(out) as f:
                        results.append(json.load(f))
                except Exception:
                    tail = b''
                    try:
                        with open(os.path.join(tmpd, 'shard%d.log' % i), 'rb') as f:
                            tail = f.read()[-1500:]
                    except Exception:
                        pass
                    inconclusive.append('shard %d died rc=%s: %s' % (i, rc, tail.decode('utf-8', 'replace')))
    finally:
        for i, (p, out, ts, log) in running.items():
            try:
                os.killpg(p.pid, 9)
            except Exception:
                pass
        import shutil
        shard_logs = {}
        for fn in sorted(os.listdir(tmpd)):
            if fn.endswith('.log'):
                try:
                    with open(os.path.join(tmpd, fn), 'rb') as f:
                        data = f.read()
                    if data.strip():
                        shard_logs[fn] = data[-3000:].decode('utf-8', 'replace')
                except Exception:
                    pass
        shutil.rmtree(tmpd, ignore_errors=True)

    m = merge_results(results)
    inconclusive.extend(m['inconclusive'])
    for name in getattr(mod, 'REQUIRED', []):
        if not args.replay and m['counters'].get(name, 0) <= 0:
            inconclusive.append('deciding monitor/counter %r was never reached' % name)
    if hasattr(mod, 'conclude') and not args.replay:
        inconclusive.extend(mod.conclude(m) or [])
    if m['evaluations'] == 0 and not args.replay:
        inconclusive.append('no execution was judged')

    # ---- classify violations against the committed known findings
    known = {(k['property'], k['key']): k for k in known_findings() if k.get('status') == 'known'}
    new, seen_known = [], {}
    for v in m['violations']:
        kk = (args.prop, v['key'])
        if kk in known:
            seen_known.setdefault(v['key'], v)
        else:
            new.append(v)
    for key, v in seen_known.items():
        print('KNOWN-FINDING: property=%s %s [%s] (%d occurrence(s) this run; e.g. %s)' % (
            args.prop, known[(args.prop, key)]['what'], key, m['viol_counts'].get(key, 1),
            v['what'][:200]))
    n_new = sum(c for k, c in m['viol_counts'].items() if (args.prop, k) not in known)

    replay_paths = []
    for n, v in enumerate(new[:10]):
        path = os.path.join(REPLAY_DIR, '%s-%s-seed%d-%d.json' % (args.prop, args.tier, args.seed, n))
        if args.replay:
            print('VIOLATION property=%s replay=%s' % (args.prop, args.replay))
            print('  mechanism=%s: %s' % (v['key'], v['what'][:600]))
            continue
        with open(path, 'w') as f:
            json.dump({'property': args.prop, 'tier': args.tier, 'seed': args.seed, 'key': v['key'],
                       'what': v['what'], 'witness': v['witness'],
                       'tree': env.repo_path()}, f, indent=1)
        replay_paths.append(path)
        print('VIOLATION property=%s replay=%s' % (args.prop, path))
        print('  mechanism=%s: %s' % (v['key'], v['what'][:600]))

    wall = time.time() - t0
    if not args.replay:
        distinct = len(m['hashes']) + m['distinct_enum']
        cov = {'evaluations': m['evaluations'], 'distinct_nontrivial': distinct,
               'rule': mod.RULE, 'samples': m['samples'] or ['(no sample recorded)'],
               'counters': {k: m['counters'][k] for k in sorted(m['counters'])},
               'shards': nsh, 'shard_wall_s': m['wall_shards'],
               'known_findings_seen': {k: m['viol_counts'].get(k, 0) for k in seen_known},
               'verdict': 'violated' if new else ('inconclusive' if inconclusive else 'held-on-observed'),
               'inconclusive_reasons': inconclusive}
        if m['exhaustive'] is not None:
            cov['exhaustive'] = bool(m['exhaustive'])
        ev = {'property_id': args.prop, 'tier': args.tier, 'seed': args.seed, 'level': mod.LEVEL,
              'coverage': cov,
              'assumptions': list(getattr(mod, 'ASSUMPTIONS', [])) + [
                  'interpreter %s' % sys.version.split()[0], 'tree under test: %s' % env.repo_path()],
              'wall_s': round(wall, 2), 'violations': n_new}
        os.makedirs(EVID, exist_ok=True)
        tmp = os.path.join(EVID, '.%s.json.tmp' % args.prop)
        with open(tmp, 'w') as f:
            json.dump(ev, f, indent=1, sort_keys=False)
        os.replace(tmp, os.path.join(EVID, '%s.json' % args.prop))

    summary = '%s tier=%s seed=%d evaluations=%d distinct=%d wall=%.1fs' % (
        args.prop, args.tier, args.seed, m['evaluations'], len(m['hashes']) + m['distinct_enum'], wall)
    if new:
        print('violations by mechanism: %s' % json.dumps(m['viol_counts'], sort_keys=True))
        print('FAIL ' + summary)
        return 1
    if inconclusive:
        for r in inconclusive:
            print('INCONCLUSIVE property=%s reason=%s' % (args.prop, r))
        for fn, txt in shard_logs.items():
            print('--- %s\n%s' % (fn, txt))
        for nte in m['notes'][:3]:
            print(nte)
        return 2
    print('OK   ' + summary)
    if os.environ.get('VERIF_VERBOSE'):
        print(json.dumps(m['counters'], indent=1, sort_keys=True))
    return 0


if __name__ == '__main__':
    sys.exit(main())

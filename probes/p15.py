import logging; logging.disable(logging.CRITICAL)
import cpppo, struct
from cpppo.server.enip import parser
from cpppo.dotdict import dotdict
class Counting:
    def __init__( s, b ): s.b=b; s.i=0
    def __iter__( s ): return s
    def __next__( s ):
        if s.i>=len(s.b): raise StopIteration
        v=s.b[s.i]; s.i+=1; return v
def run( mk, inp, limit=None, how='int' ):
    cnt = Counting( inp ); src = cpppo.peekable( cnt ); data = dotdict()
    kw={}
    if limit is not None:
        if how=='int': kw['limit']=limit
        elif how=='path': data['L']=limit; kw['limit']='..L'
        else: kw['limit']=lambda **k: limit
    m = mk( terminal=True, **kw )
    exc=None
    try:
        with m:
            for _ in m.run( source=src, data=data ): pass
    except Exception as e: exc=type(e).__name__
    ok = exc is None and m.terminal
    consumed = src.sent
    rest = bytes( list( src ))
    cons_ok = inp[:consumed]+rest == inp if consumed>=0 else False
    return ok, exc, consumed, cnt.i, cons_ok
ss = bytes([5])+b'hello'+b'TAIL'
for L in (None,0,1,3,5,6,7,10):
    print( 'SSTRING', L, run( parser.SSTRING, ss, L ), run( parser.SSTRING, ss, L, 'path' ))
st = struct.pack('<H',5)+b'hello\0'+b'TAIL'
for L in (None,2,6,7,8,9): print( 'STRING', L, run( parser.STRING, st, L ))
ep = bytes([3,0x91,0x03])+b'abc\0'+bytes([0x28,0x07])+b'TAIL'
for L in (None,0,1,3,6,7,8,9): print( 'EPATH', L, run( parser.EPATH, ep, L ))
cpf = struct.pack('<H',2)+struct.pack('<HH',0,0)+struct.pack('<HH',0xb2,4)+bytes([0x0e,0x01,0x20,0x01])+b'TAIL'
for L in (None,0,2,6,10,13,14,15): print( 'CPF', L, run( parser.CPF, cpf, L ))
# inner length longer than limit
ss2 = bytes([9])+b'hello'+b'TAIL'
print( 'SSTRING len9 limit 6', run( parser.SSTRING, ss2, 6 ))
td = struct.pack('<hhh',1,2,3)+b'T'
print( 'typed INT limit 6', run( lambda **k: parser.typed_data( tag_type=0xc3, **k ), td, 6 ))
print( 'typed INT limit 5', run( lambda **k: parser.typed_data( tag_type=0xc3, **k ), td, 5 ))
print( 'typed INT limit 4', run( lambda **k: parser.typed_data( tag_type=0xc3, **k ), td, 4 ))

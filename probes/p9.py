import logging; logging.disable(logging.CRITICAL)
import cpppo, time, json
from cpppo.server.enip import parser, client, logix, device, ucmm
from cpppo.dotdict import dotdict
def frame( cip, ctx=b'abc', session=7 ):
    data = dotdict(); data.enip = {}
    data.enip.session_handle = session; data.enip.options=0; data.enip.status=0
    data.enip.sender_context = {}; data.enip.sender_context.input = client.format_context( ctx )
    data.enip.CIP = cip
    data.enip.input = bytearray( parser.CIP.produce( data.enip ))
    return data
def usend( req, route_path, send_path='@6/1' ):
    cip = dotdict(); cip.send_data = {}
    sd = cip.send_data; sd.interface=0; sd.timeout=8; sd.CPF={}; sd.CPF.item=[dotdict(),dotdict()]
    sd.CPF.item[0].type_id=0; sd.CPF.item[1].type_id=0xb2; sd.CPF.item[1].unconnected_send={}
    us = sd.CPF.item[1].unconnected_send
    if send_path or route_path:
        us.service=0x52; us.status=0; us.priority=5; us.timeout_ticks=157
        us.path={'segment':[dotdict(s) for s in device.parse_path(send_path)]}
        if route_path:
            us.route_path={'segment':[dotdict(s) for s in device.parse_route_path(route_path)]}
    us.request = req
    us.request.input = bytearray( logix.Logix.produce( us.request ))
    return frame( cip )
def process( data, **kw ):
    d = dotdict(); d.request = dotdict(); d.request.enip = dotdict( data.enip ); 
    # emulate server: only header + input
    enc = parser.enip_encode( data.enip )
    d = dotdict()
    src = cpppo.peekable( enc )
    with parser.enip_machine( context='enip' ) as m:
        for _ in m.run( source=src, data=d, path='request' ): pass
    ok = logix.process( ('1.2.3.4',1234), data=d, **kw )
    return ok, d
from cpppo.server.enip.device import Attribute
for cfg in (None, False, '1/0', '1/0/2/1.2.3.4', '2/5'):
    device.lookup_reset(); logix.setup_reset()
    kw = {}
    if cfg is not None:
        class U( ucmm.UCMM ):
            route_path = device.parse_route_path( cfg ) if cfg else False
        kw['UCMM_class'] = U
    tags = dotdict(); 
    te = dotdict(); te.attribute = Attribute( 'A', parser.INT, default=[0]*4 ); te.path=None; te.error=0
    dict.__setitem__( tags, 'A', te )
    kw['tags'] = tags
    row=[]
    for rp in (None, '1/0', '2/5', '1/0/2/1.2.3.4', '1/1'):
        req = dotdict(); req.path={'segment':[dotdict(symbolic='A')]}; req.write_tag={'elements':1,'data':[5],'type':0xc3}
        try:
            ok,d = process( usend( req, rp ), **kw )
            st = d.response.enip.status
            us = d.response.enip.get('CIP.send_data.CPF.item[1].unconnected_send')
            inner = us.request.get('status') if us and 'request' in us else None
            row.append( (rp, ok, st, inner, te.attribute[0]) )
        except Exception as e:
            row.append( (rp, 'EXC', repr(e)[:60]) )
        te.attribute[0] = 0
    print( cfg, row )

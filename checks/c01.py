"""C01 -- wire codec round-trip over the whole EtherNet/IP CIP message grammar.

Reference-model monitor: for every generated field assignment four comparisons are made on the
real code's executions: (1) real produce == independent encoder (vlib/refcodec.py); (2) parsing
the produced bytes with the real machine recovers every encoded field; (3) producing the parsed
result regenerates the bytes; (4) the independent decoder recovers the fields too (oracle honesty).
"""
from __future__ import annotations
import contextlib, math, struct

PROPERTY = 'C01'
META = {
    'level': 'exploration',
    'technique': 'reference-model runtime monitor: real produce/parse of every grammar element compared with an independent struct-only encoder/decoder on boundary-biased generated field values',
    'text': 'Multiple Service Packet replies carry 1-3 extended status words with non-zero general statuses (incl. 0x1E with the bundled replies), bundle requests also use wider spellings of the router path. For every element of the grammar (14 typed scalars, SSTRING/STRING, IPADDR/IFACEADDRS, EPATH in its plain/padded/single/route forms with every segment kind and width, '
            'status with extended words, typed data, every Logix / Object / Message Router (bundle) / Connection Manager request and reply, the Unconnected Send wrapper, CPF with every item '
            'type, register / send_data / list replies / legacy, and whole encapsulated frames) seeded boundary-biased field dictionaries are produced by the real code and by an independent '
            'encoder; the bytes must be equal, the real parser must recover every encoded field, re-producing the parse must regenerate the bytes, the independent decoder must agree, and a message object edited in place after it was produced once must encode exactly like a fresh object with the same values (produce is a function of the current field values). '
            'Held on the generated cases; values outside the generators are not covered.',
    'note': 'Trusts vlib/refcodec.py (written from the layout tables; every disagreement with cpppo is triaged by hand against the specification). Floats compare by bit pattern; BOOL true is 0xFF.',
}
LEVEL = META['level']
RULE = ('a case = one (message kind, field dictionary); generated from one seeded rng with every integer field drawn boundary-biased over its full width; distinct by the produced bytes per kind; '
        'non-trivial = all four comparisons (bytes, parse fields, regenerate, reference decode where implemented) were evaluated')
ASSUMPTIONS = ['canonical encodings only (declared lengths equal actual lengths); non-canonical inputs belong to C08/C10']
KINDS = ['scalar', 'string', 'ipaddr', 'epath', 'status', 'typed_data', 'logix_request', 'logix_reply', 'object_request', 'object_reply',
         'multiple_request', 'multiple_reply', 'forward_open', 'forward_open_reply', 'forward_close', 'forward_close_reply',
         'unconnected_send', 'cpf', 'command', 'frame']
REQUIRED = ['kind:' + k for k in KINDS] + ['monitor:bytes-equal', 'monitor:fields-recovered', 'monitor:regenerated', 'monitor:reproduce-after-edit', 'sweep:reply-status-values', 'monitor:ref-decoded',
                                           'epath:extended-port', 'epath:address-link', 'epath:32bit-element', 'epath:odd-symbolic', 'string:odd-length',
                                           'status:extended', 'forward_open:large', 'unconnected_send:odd-length', 'multiple_reply:embedded-error-with-extended-status', 'frame:payload>=32767']
TIMEOUT = {'quick': 300, 'thorough': 1800}
SOFT = {'quick': 30, 'thorough': 420}


def shards(tier):
    return 4 if tier == 'quick' else 16


def bits(x):
    return struct.pack('<d', x)


def same_leaf(a, b):
    if isinstance(a, float) or isinstance(b, float):
        try:
            if math.isnan(a) and math.isnan(b):
                return True
            return bits(float(a)) == bits(float(b))
        except Exception:
            return False
    if isinstance(a, (bytes, bytearray)) or hasattr(b, 'tobytes'):
        try:
            return bytes(a) == bytes(b.tobytes() if hasattr(b, 'tobytes') else b)
        except Exception:
            return False
    if isinstance(a, bool) or isinstance(b, bool):
        return bool(a) == bool(b) and not isinstance(b, (str, dict, list))
    return a == b


def subset(f, parsed, path=''):
    """every field of f must be present in parsed with the same value -> list of mismatch descriptions"""
    out = []
    if isinstance(f, dict):
        if not isinstance(parsed, dict):
            return ['%s: expected mapping, parsed %r' % (path, parsed)]
        for k, v in f.items():
            if not dict.__contains__(parsed, k):
                out.append('%s.%s: missing in parse' % (path, k))
                continue
            out.extend(subset(v, dict.__getitem__(parsed, k), '%s.%s' % (path, k)))
    elif isinstance(f, (list, tuple)):
        if not isinstance(parsed, (list, tuple)) and not hasattr(parsed, 'tobytes'):
            return ['%s: expected list, parsed %r' % (path, parsed)]
        pl = list(parsed)
        if len(pl) != len(f):
            return ['%s: %d elements encoded, %d parsed' % (path, len(f), len(pl))]
        for i, (a, b) in enumerate(zip(f, pl)):
            out.extend(subset(a, b, '%s[%d]' % (path, i)))
    else:
        if not same_leaf(f, parsed):
            out.append('%s: encoded %r, parsed %r' % (path, f, parsed))
    return out


class Env:
    def __init__(self, ctx):
        import cpppo
        from cpppo.server.enip import parser, device, logix
        self.ctx, self.cpppo, self.parser, self.device, self.logix = ctx, cpppo, parser, device, logix
        device.lookup_reset()
        logix.setup_reset()
        logix.setup()           # creates Identity/Message Router/Connection Manager so bundle members can be parsed
        from vlib import refcodec, gen
        self.rc, self.gen = refcodec, gen

    def dd(self, o):
        if isinstance(o, dict):
            d = self.cpppo.dotdict()
            for k, v in o.items():
                dict.__setitem__(d, k, self.dd(v))
            return d
        if isinstance(o, list):
            return [self.dd(v) for v in o]
        if isinstance(o, tuple):
            return tuple(self.dd(v) for v in o)
        return o

    def parse(self, machine, data_bytes, data=None):
        cpppo = self.cpppo
        data = cpppo.dotdict() if data is None else data
        source = cpppo.peekable(bytes(data_bytes))
        with machine as m:
            with contextlib.closing(m.run(source=source, data=data)) as eng:
                for _ in eng:
                    pass
            term = m.terminal
        return data, source.sent, term


# Each kind: gen(env, rng) -> (label, f, real_produce(fd)->bytes, ref_bytes, parse(bytes)->(parsed_subtree, sent, terminal), ref_decode(bytes)->f' | None)

def k_scalar(env, rng):
    p, rc, gen = env.parser, env.rc, env.gen
    t = rng.choice(list(rc.TYPES))
    v = gen.value(rng, t if t in gen.INT_RANGES or t in ('BOOL', 'REAL', 'LREAL') else 'UINT')
    cls = getattr(p, t)

    def parse(b):
        d, sent, term = env.parse(cls(terminal=True), b)
        return d[t], sent, term
    return t, v, lambda fd: cls.produce(fd), rc.enc_scalar(t, v), parse, lambda b: rc.dec_scalar(t, b)[0]


def k_string(env, rng):
    p, rc, gen = env.parser, env.rc, env.gen
    t = rng.choice(['SSTRING', 'STRING'])
    s = gen.text(rng, 255 if t == 'SSTRING' else 65535)
    if len(s.encode('iso-8859-1')) % 2:
        env.ctx.count('string:odd-length')
    cls = getattr(p, t)
    f = {'string': s, 'length': len(s)} if rng.random() < 0.5 else {'string': s}

    def parse(b):
        d, sent, term = env.parse(cls(terminal=True), b)
        return d[t], sent, term
    return t, f, lambda fd: cls.produce(fd if rng.random() < 0.5 else fd), rc.enc_scalar(t, s), parse, lambda b: {'string': rc.dec_scalar(t, b)[0]}


def k_ipaddr(env, rng):
    p, rc = env.parser, env.rc
    if rng.random() < 0.5:
        a = '%d.%d.%d.%d' % tuple(rng.choice([0, 1, 10, 127, 192, 254, 255]) for _ in range(4))
        net = rng.random() < 0.5
        cls = p.IPADDR_network if net else p.IPADDR

        def parse(b):
            d, sent, term = env.parse(cls(terminal=True), b)
            return d[cls.__name__], sent, term
        return cls.__name__, a, lambda fd: cls.produce(fd), rc.enc_ipaddr(a, network=net), parse, None
    f = {k: '%d.%d.%d.%d' % tuple(rng.randrange(256) for _ in range(4))
         for k in ('ip_address', 'network_mask', 'gateway_address', 'dns_primary', 'dns_secondary')}
    f['domain_name'] = env.gen.text(rng, 40)

    def parse(b):
        d, sent, term = env.parse(p.IFACEADDRS(terminal=True), b)
        return d['IFACEADDRS'], sent, term
    return 'IFACEADDRS', f, lambda fd: p.IFACEADDRS.produce(fd), rc.enc_ifaceaddrs(f), parse, None


def note_path(env, segs):
    c = env.ctx
    for s in segs:
        if 'port' in s:
            if s['port'] >= 15:
                c.count('epath:extended-port')
            if isinstance(s['link'], str):
                c.count('epath:address-link')
        if s.get('element', 0) > 0xFFFF:
            c.count('epath:32bit-element')
        if 'symbolic' in s and len(s['symbolic']) % 2:
            c.count('epath:odd-symbolic')


def k_epath(env, rng):
    p, rc, gen = env.parser, env.rc, env.gen
    variant = rng.choice(['EPATH', 'EPATH', 'EPATH_padded', 'EPATH_single', 'route_path'])
    cls = getattr(p, variant)
    if variant == 'EPATH_single':
        segs = [gen.segment(rng)]
    elif variant == 'route_path':
        segs = gen.route_path(rng)
    else:
        segs = gen.epath(rng)
    note_path(env, segs)
    f = {'segment': segs}
    ref = rc.enc_epath(segs, padded=variant in ('EPATH_padded', 'route_path'), single=variant == 'EPATH_single')

    def parse(b):
        d, sent, term = env.parse(cls(terminal=True), b)
        return d[variant], sent, term

    def refdec(b):
        if variant == 'EPATH_single':
            return {'segment': rc.dec_segments(b)}
        return {'segment': rc.dec_epath(b, 0, padded=variant in ('EPATH_padded', 'route_path'))[0]}
    return variant, f, lambda fd: cls.produce(fd), ref, parse, refdec


def status_fields(st, ext):
    f = {'status': st}
    if ext:
        f['status_ext'] = {'size': len(ext), 'data': list(ext)}
    return f


def k_status(env, rng):
    p, rc, gen = env.parser, env.rc, env.gen
    st, ext = gen.status(rng)
    if ext:
        env.ctx.count('status:extended')
    f = status_fields(st, ext)

    def parse(b):
        d, sent, term = env.parse(p.status(terminal=True), b)
        return d, sent, term

    def refdec(b):
        s, e, off = rc.dec_status(b, 0)
        return status_fields(s, e)
    return 'status', f, lambda fd: p.status.produce(fd), rc.enc_status(st, ext), parse, refdec


ELEMENT_TYPES = ['BOOL', 'SINT', 'INT', 'DINT', 'LINT', 'USINT', 'UINT', 'UDINT', 'ULINT', 'REAL', 'LREAL', 'SSTRING', 'STRING']


def k_typed_data(env, rng):
    p, rc, gen = env.parser, env.rc, env.gen
    t = rng.choice(ELEMENT_TYPES)
    code = rc.NAME2CODE[t]
    vals = gen.typed_values(rng, t)
    f = {'type': code, 'data': vals}

    def parse(b):
        d, sent, term = env.parse(p.typed_data(tag_type=code, terminal=True), b)
        return {'type': code, 'data': d['typed_data.data']}, sent, term
    return 'typed_data:' + t, f, lambda fd: p.typed_data.produce(fd), rc.enc_typed(code, vals), parse, lambda b: {'type': code, 'data': rc.dec_typed(code, b)}


def gen_logix_request(env, rng):
    rc, gen = env.rc, env.gen
    kind = rng.choice(['read_tag', 'read_frag', 'write_tag', 'write_frag'])
    segs = gen.tag_path(rng)
    note_path(env, segs)
    f = {'path': {'segment': segs}}
    if kind == 'read_tag':
        f['read_tag'] = {'elements': gen.intval(rng, 0, 65535)}
    elif kind == 'read_frag':
        f['read_frag'] = {'elements': gen.intval(rng, 0, 65535), 'offset': gen.intval(rng, 0, 2**32 - 1)}
    else:
        t = rng.choice(ELEMENT_TYPES)
        vals = gen.typed_values(rng, t)
        w = {'type': rc.NAME2CODE[t], 'data': vals}
        if kind == 'write_tag':
            if rng.random() < 0.5:
                w['elements'] = len(vals)
        else:
            w['elements'] = gen.intval(rng, len(vals), 65535)
            w['offset'] = gen.intval(rng, 0, 2**32 - 1)
        f[kind] = w
    if rng.random() < 0.5:
        f['service'] = {'read_tag': 0x4C, 'read_frag': 0x52, 'write_tag': 0x4D, 'write_frag': 0x53}[kind]
    return kind, f


def gen_logix_reply(env, rng):
    rc, gen = env.rc, env.gen
    kind = rng.choice(['read_tag', 'read_frag', 'write_tag', 'write_frag'])
    svc = {'read_tag': 0xCC, 'read_frag': 0xD2, 'write_tag': 0xCD, 'write_frag': 0xD3}[kind]
    st, ext = gen.status(rng)
    if kind.startswith('read') and rng.random() < 0.6:
        st, ext = rng.choice([0, 0, 6]), []
    f = dict(status_fields(st, ext), service=svc)
    if kind.startswith('read') and st in (0, 6):
        t = rng.choice(ELEMENT_TYPES)
        f[kind] = {'type': rc.NAME2CODE[t], 'data': gen.typed_values(rng, t)}
    return kind + '_reply', f


def k_logix_request(env, rng):
    kind, f = gen_logix_request(env, rng)
    L = env.logix.Logix

    def parse(b):
        return env.parse(L.parser, b)
    return kind, f, lambda fd: L.produce(fd), env.rc.enc_request(f), parse, env.rc.dec_request


def k_logix_reply(env, rng):
    kind, f = gen_logix_reply(env, rng)
    L = env.logix.Logix

    def parse(b):
        return env.parse(L.parser, b)
    return kind, f, lambda fd: L.produce(fd), env.rc.enc_reply(f), parse, env.rc.dec_reply


def gen_object_request(env, rng):
    gen = env.gen
    kind = rng.choice(['get_attributes_all', 'get_attribute_single', 'get_attribute_list', 'set_attribute_single'])
    segs = [{'class': gen.logical_value(rng, 'class')}, {'instance': gen.logical_value(rng, 'instance')}]
    if kind in ('get_attribute_single', 'set_attribute_single') or rng.random() < 0.3:
        segs.append({'attribute': gen.logical_value(rng, 'attribute')})
    f = {'path': {'segment': segs}}
    if kind in ('get_attributes_all', 'get_attribute_single'):
        f[kind] = True
    elif kind == 'get_attribute_list':
        f[kind] = [gen.intval(rng, 0, 65535) for _ in range(rng.choice([1, 2, 5, 20]))]
    elif kind == 'set_attribute_single':
        f[kind] = {'data': [rng.randrange(256) for _ in range(rng.choice([1, 2, 4, 8, 33]))]}
    else:
        f['service'] = rng.choice([0x02, 0x05, 0x4B, 0x4F, 0x7F, 0x15])
        f['service_code'] = {'data': [rng.randrange(256) for _ in range(rng.choice([1, 3, 10]))]} if rng.random() < 0.7 else True
    return kind, f


FORCED_REPLY = []           # (kind, status, extended status words): the deterministic status sweep of run()


def gen_object_reply(env, rng):
    gen = env.gen
    kind = rng.choice(['get_attributes_all', 'get_attribute_single', 'get_attribute_list', 'set_attribute_single'])
    svc = {'get_attributes_all': 0x81, 'get_attribute_single': 0x8E, 'get_attribute_list': 0x83, 'set_attribute_single': 0x90,
           'service_code': rng.choice([0x82, 0x85, 0xCB, 0xCF, 0x95])}[kind]
    st, ext = gen.status(rng)
    if rng.random() < 0.6:
        st, ext = 0, []
    if FORCED_REPLY:
        kind, st, ext = FORCED_REPLY.pop()
        svc = {'get_attributes_all': 0x81, 'get_attribute_single': 0x8E, 'get_attribute_list': 0x83, 'set_attribute_single': 0x90}[kind]
    f = dict(status_fields(st, ext), service=svc)
    if st == 0 and kind not in ('set_attribute_single',):
        n = rng.choice([1, 2, 4, 9, 40])
        if kind == 'get_attribute_list':
            n = rng.choice([2, 4, 6, 10])
        if kind != 'service_code' or rng.random() < 0.7:
            f[kind] = {'data': [rng.randrange(256) for _ in range(n)]}
    return kind + '_reply', f


def k_object_request(env, rng):
    kind, f = gen_object_request(env, rng)
    O = env.device.Object

    def parse(b):
        return env.parse(O.parser, b)
    return kind, f, lambda fd: O.produce(fd), env.rc.enc_request(f), parse, env.rc.dec_request


def k_object_reply(env, rng):
    kind, f = gen_object_reply(env, rng)
    O = env.device.Object

    def parse(b):
        return env.parse(O.parser, b)
    return kind, f, lambda fd: O.produce(fd), env.rc.enc_reply(f), parse, None if kind.startswith('service_code') else env.rc.dec_reply


def k_multiple_request(env, rng):
    n = rng.choice([1, 1, 2, 3, 5, 12])
    members = []
    for _ in range(n):
        if rng.random() < 0.75:
            members.append(gen_logix_request(env, rng)[1])
        else:
            k, m = gen_object_request(env, rng)
            members.append(m)
    f = {'multiple': {'request': members}}
    r = rng.random()
    if r < 0.5:
        f['path'] = {'segment': [{'class': 2}, {'instance': 1}]}
    elif r < 0.7:
        # wider spellings of the router's path: the request data (count, offsets) starts after a longer path
        f['path'] = {'segment': [{'class': rng.choice([2, 0x102])}, {'instance': rng.choice([1, 0x101])}]}
        env.ctx.count('multiple_request:wide-router-path')
    M = env.logix.Logix

    def parse(b):
        return env.parse(M.parser, b)

    def refdec(b):
        d = env.rc.dec_request(b)
        return d
    return 'multiple*%d' % n, f, lambda fd: M.produce(fd), env.rc.enc_request(f), parse, refdec


def k_multiple_reply(env, rng):
    n = rng.choice([1, 1, 2, 3, 5, 12])
    members = []
    for _ in range(n):
        members.append(gen_logix_reply(env, rng)[1] if rng.random() < 0.8 else gen_object_reply(env, rng)[1])
    st = rng.choice([0, 0, 0, 0x1E, 0x1E, 0x08, 0x16])
    f = {'service': 0x8A, 'status': st}
    if st and rng.random() < 0.5:
        # the bundle's own reply may carry extended status words: the reply data (count, offsets) starts after them
        ext = [rng.randrange(0x10000) for _ in range(rng.choice([1, 1, 2, 3]))]
        f['status_ext'] = {'size': len(ext), 'data': ext}
        env.ctx.count('multiple_reply:extended-status')
        if st == 0x1E:
            env.ctx.count('multiple_reply:embedded-error-with-extended-status')
    if st in (0, 0x1E):
        f['multiple'] = {'request': members}
    M = env.logix.Logix

    def parse(b):
        return env.parse(M.parser, b)
    return 'multiple_reply*%d' % n, f, lambda fd: M.produce(fd), env.rc.enc_reply(f), parse, None


def conn_params(rng, large):
    return {'size': rng.choice([1, 2, 500, 510, 511] if not large else [1, 511, 512, 4000, 65535]),
            'type': rng.randrange(4), 'priority': rng.randrange(4), 'variable': rng.randrange(2), 'redundant': rng.randrange(2),
            'RPI': rng.choice([0, 1, 2000000, 2**32 - 1]), 'connection_ID': rng.choice([0, 1, 2**32 - 1, rng.randrange(2**32)])}


def k_forward_open(env, rng):
    gen = env.gen
    large = rng.random() < 0.5
    if large:
        env.ctx.count('forward_open:large')
    ot, to = conn_params(rng, large), conn_params(rng, large)
    if large and ot['size'] <= 0x1FF and to['size'] <= 0x1FF:
        ot['size'] = 4000
    cp = [{'port': 1, 'link': rng.randrange(8)}] if rng.random() < 0.7 else []
    cp += [{'class': 2}, {'instance': 1}] if rng.random() < 0.8 else [{'symbolic': gen.symbol_name(rng)}]
    f = {'path': {'segment': [{'class': 6}, {'instance': 1}]},
         'forward_open': {'priority_time_tick': rng.randrange(256), 'timeout_ticks': rng.randrange(256), 'O_T': ot, 'T_O': to,
                          'connection_serial': gen.intval(rng, 0, 65535), 'O_vendor': gen.intval(rng, 0, 65535), 'O_serial': gen.intval(rng, 0, 2**32 - 1),
                          'connection_timeout_multiplier': rng.randrange(8), 'transport_class_triggers': rng.choice([0xA3, 0x01, 0xFF]),
                          'connection_path': {'segment': cp}}}
    CM = env.device.Connection_Manager

    def parse(b):
        return env.parse(CM.parser, b)
    return 'forward_open:' + ('large' if large else 'small'), f, lambda fd: CM.produce(fd), env.rc.enc_request(f), parse, None


def k_forward_open_reply(env, rng):
    gen = env.gen
    svc = rng.choice([0xD4, 0xDB])
    ok = rng.random() < 0.6
    fo = {'connection_serial': gen.intval(rng, 0, 65535), 'O_vendor': gen.intval(rng, 0, 65535), 'O_serial': gen.intval(rng, 0, 2**32 - 1)}
    f = {'service': svc, 'forward_open': fo}
    if ok:
        f['status'] = 0
        fo['O_T'] = {'connection_ID': gen.intval(rng, 0, 2**32 - 1), 'API': gen.intval(rng, 0, 2**32 - 1)}
        fo['T_O'] = {'connection_ID': gen.intval(rng, 0, 2**32 - 1), 'API': gen.intval(rng, 0, 2**32 - 1)}
        if rng.random() < 0.5:
            fo['application'] = {'data': [rng.randrange(256) for _ in range(rng.choice([2, 4, 10]))]}
    else:
        st, ext = gen.status(rng)
        f.update(status_fields(st or 0x01, ext if st else []))
        if rng.random() < 0.5:
            fo['remaining_path_size'] = rng.randrange(256)
    CM = env.device.Connection_Manager

    def parse(b):
        return env.parse(CM.parser, b)
    return 'forward_open_reply:' + ('ok' if ok else 'fail'), f, lambda fd: CM.produce(fd), env.rc.enc_reply(f), parse, env.rc.dec_reply


def k_forward_close(env, rng):
    gen = env.gen
    f = {'path': {'segment': [{'class': 6}, {'instance': 1}]},
         'forward_close': {'priority_time_tick': rng.randrange(256), 'timeout_ticks': rng.randrange(256),
                           'connection_serial': gen.intval(rng, 0, 65535), 'O_vendor': gen.intval(rng, 0, 65535), 'O_serial': gen.intval(rng, 0, 2**32 - 1),
                           'connection_path': {'segment': [{'port': 1, 'link': rng.randrange(8)}, {'class': 2}, {'instance': 1}]}}}
    CM = env.device.Connection_Manager

    def parse(b):
        return env.parse(CM.parser, b)
    return 'forward_close', f, lambda fd: CM.produce(fd), env.rc.enc_request(f), parse, None


def k_forward_close_reply(env, rng):
    gen = env.gen
    st = rng.choice([0, 0, 0x01, 0x05])
    f = {'service': 0xCE, 'status': st,
         'forward_close': {'connection_serial': gen.intval(rng, 0, 65535), 'O_vendor': gen.intval(rng, 0, 65535), 'O_serial': gen.intval(rng, 0, 2**32 - 1)}}
    if rng.random() < 0.4:
        f['forward_close']['application'] = {'data': [rng.randrange(256) for _ in range(rng.choice([2, 6]))]}
    CM = env.device.Connection_Manager

    def parse(b):
        return env.parse(CM.parser, b)
    return 'forward_close_reply', f, lambda fd: CM.produce(fd), env.rc.enc_reply(f), parse, env.rc.dec_reply


def k_unconnected_send(env, rng):
    p, rc, gen = env.parser, env.rc, env.gen
    r = rng.random()
    if r < 0.7:
        req = env.rc.enc_request(gen_logix_request(env, rng)[1]) if rng.random() < 0.7 else bytes(rng.randrange(256) for _ in range(rng.choice([1, 2, 3, 10, 11])))
        if len(req) % 2:
            env.ctx.count('unconnected_send:odd-length')
        rp = gen.route_path(rng)
        note_path(env, rp)
        f = {'service': 0x52, 'path': {'segment': [{'class': 6}, {'instance': 1}]}, 'priority': rng.randrange(256), 'timeout_ticks': rng.randrange(256),
             'request': {'input': req}, 'route_path': {'segment': rp}}
        ref = rc.enc_unconnected_send(req, route_path=rp, priority=f['priority'], timeout_ticks=f['timeout_ticks'])
        label = '0x52-wrapper'
    else:
        first = rng.choice([0x4C, 0xCC, 0x0E, 0x8E, 0x01, 0x0A])
        req = bytes([first]) + bytes(rng.randrange(256) for _ in range(rng.choice([3, 5, 8, 30])))
        f = {'request': {'input': req}}
        ref = req
        label = 'opaque'

    def parse(b):
        d, sent, term = env.parse(p.unconnected_send(terminal=True), b)
        return d['unconnected_send'], sent, term
    return label, f, lambda fd: p.unconnected_send.produce(fd), ref, parse, None


def gen_cpf(env, rng):
    rc, gen = env.rc, env.gen
    n = rng.choice([0, 1, 2, 2, 2, 3, 4])
    items, ref_items = [], []
    for idx in range(n):
        k = rng.choice(['null', 'b2', 'b2err', 'a1', 'b1', 'svc', 'ident', 'legacy', 'unknown'])
        if k == 'unknown' and idx != n - 1:
            k = 'null'          # an unrecognised item type absorbs the rest of the list by design: only generated last
        if k == 'b2err':
            st = rng.choice([0x01, 0x04, 0x05, 0x08])
            items.append({'type_id': 0xB2, 'unconnected_send': {'service': 0xD2, 'status': st}})
            ref_items.append((0xB2, bytes([0xD2, 0, st, 0])))
        elif k == 'null':
            items.append({'type_id': 0})
            ref_items.append((0, b''))
        elif k == 'b2':
            req = bytes([rng.choice([0x4C, 0xCC, 0x0E])]) + bytes(rng.randrange(256) for _ in range(rng.choice([1, 4, 9])))
            items.append({'type_id': 0xB2, 'unconnected_send': {'request': {'input': req}}})
            ref_items.append((0xB2, req))
        elif k == 'a1':
            c = gen.intval(rng, 0, 2**32 - 1)
            items.append({'type_id': 0xA1, 'connection_ID': {'connection': c}})
            ref_items.append((0xA1, struct.pack('<I', c)))
        elif k == 'b1':
            s = gen.intval(rng, 0, 65535)
            req = bytes(rng.randrange(256) for _ in range(rng.choice([1, 2, 7])))
            items.append({'type_id': 0xB1, 'connection_data': {'sequence': s, 'request': {'input': req}}})
            ref_items.append((0xB1, struct.pack('<H', s) + req))
        elif k == 'svc':
            d = {'version': gen.intval(rng, 0, 65535), 'capability': gen.intval(rng, 0, 65535), 'service_name': rng.choice(['Communications', 'x', 'Comms 2'])}
            items.append({'type_id': 0x100, 'communications_service': d})
            ref_items.append((0x100, rc.enc_services_item(d)))
        elif k == 'ident':
            d = {'version': gen.intval(rng, 0, 65535), 'sin_family': gen.intval(rng, -32768, 32767), 'sin_port': gen.intval(rng, 0, 65535),
                 'sin_addr': '%d.%d.%d.%d' % tuple(rng.randrange(256) for _ in range(4)),
                 'vendor_id': gen.intval(rng, 0, 65535), 'device_type': gen.intval(rng, 0, 65535), 'product_code': gen.intval(rng, 0, 65535),
                 'product_revision': gen.intval(rng, 0, 65535), 'status_word': gen.intval(rng, 0, 65535), 'serial_number': gen.intval(rng, 0, 2**32 - 1),
                 'product_name': gen.text(rng, 60), 'state': rng.randrange(256)}
            items.append({'type_id': 0x0C, 'identity_object': d})
            ref_items.append((0x0C, rc.enc_identity_item(d)))
        elif k == 'legacy':
            ip = '%d.%d.%d.%d' % tuple(rng.randrange(1, 255) for _ in range(4))
            d = {'version': 1, 'unknown_1': 0, 'sin_family': 2, 'sin_port': gen.intval(rng, 0, 65535), 'sin_addr': ip, 'ip_address': ip}
            items.append({'type_id': 0x01, 'legacy_CPF_0x0001': d})
            ref_items.append((0x01, rc.enc_legacy_item(d)))
        else:
            tid = rng.choice([0x8000, 0x8002, 0x00FF, 0x1234])
            raw = bytes(rng.randrange(256) for _ in range(rng.choice([0, 1, 5])))
            it = {'type_id': tid}
            if raw:
                it['input'] = raw
            items.append(it)
            ref_items.append((tid, raw))
    f = {'item': items} if items else {'count': 0}
    return f, rc.enc_cpf(ref_items)


def k_cpf(env, rng):
    p = env.parser
    f, ref = gen_cpf(env, rng)

    def parse(b):
        d, sent, term = env.parse(p.CPF(terminal=True), b)
        return d['CPF'], sent, term
    return 'cpf*%d' % len(f.get('item', [])), f, lambda fd: p.CPF.produce(fd), ref, parse, None


def gen_command(env, rng):
    """-> (command code, CIP field dict under its parser name, reference payload bytes)"""
    rc, gen = env.rc, env.gen
    k = rng.choice(['register', 'send_data', 'send_data', 'send_unit', 'list_services', 'list_identity', 'list_interfaces', 'legacy', 'unregister'])
    if k == 'register':
        f = {'protocol_version': gen.intval(rng, 0, 65535), 'options': gen.intval(rng, 0, 65535)}
        return 0x65, 'register', f, struct.pack('<HH', f['protocol_version'], f['options'])
    if k == 'unregister':
        return 0x66, 'unregister', True, b''
    if k in ('send_data', 'send_unit'):
        cpf, ref = gen_cpf(env, rng)
        f = {'interface': gen.intval(rng, 0, 2**32 - 1), 'timeout': gen.intval(rng, 0, 65535), 'CPF': cpf}
        return (0x6F if k == 'send_data' else 0x70), 'send_data', f, struct.pack('<IH', f['interface'], f['timeout']) + ref
    cpf, ref = gen_cpf(env, rng)
    if rng.random() < 0.3:
        return {'list_services': 0x04, 'list_identity': 0x63, 'list_interfaces': 0x64, 'legacy': 0x01}[k], k, {}, b''
    return {'list_services': 0x04, 'list_identity': 0x63, 'list_interfaces': 0x64, 'legacy': 0x01}[k], k, {'CPF': cpf}, ref


def k_command(env, rng):
    p = env.parser
    cmd, name, f, ref = gen_command(env, rng)
    while name == 'unregister':         # no payload and no producer: covered by the frame kind
        cmd, name, f, ref = gen_command(env, rng)
    full = {'command': cmd, 'CIP': {name: f}}

    def produce(fd):
        return p.CIP.produce(fd)

    def parse(b):
        data = env.cpppo.dotdict()
        data['enip.command'] = cmd
        data['enip.length'] = len(b)
        d, sent, term = env.parse(p.CIP(), b, data=None)
        return d, sent, term

    def parse2(b):
        # the CIP parser selects the command parser from ..command and limits itself to ...length, as the server does
        data = env.cpppo.dotdict()
        enip = env.cpppo.dotdict()
        dict.__setitem__(data, 'enip', enip)
        enip.command, enip.length = cmd, len(b)
        source = env.cpppo.peekable(bytes(b))
        with p.CIP(terminal=True) as m:
            with contextlib.closing(m.run(source=source, data=data, path='enip')) as eng:
                for _ in eng:
                    pass
            term = m.terminal
        return enip, source.sent, term
    return 'cmd:' + name, full, produce, ref, parse2, None


def k_frame(env, rng):
    p, rc = env.parser, env.rc
    cmd, name, f, ref = gen_command(env, rng)
    ctxb = bytes(rng.randrange(256) for _ in range(8)) if rng.random() < 0.7 else rng.choice([b'\x00' * 8, b'\xff' * 8])
    hdr = {'command': cmd, 'session_handle': env.gen.intval(rng, 0, 2**32 - 1), 'status': rng.choice([0, 0, 0, 1, 0x65, 2**32 - 1]),
           'sender_context': {'input': ctxb}, 'options': env.gen.intval(rng, 0, 2**32 - 1)}
    full = dict(hdr, CIP={name: f})

    def produce(fd):
        if name != 'unregister':        # Unregister Session carries no payload; the library has no producer for it
            if 'CIP' not in fd:
                dict.__setitem__(fd, 'CIP', env.dd({name: f}))
            fd.input = bytearray(p.CIP.produce(fd))
        else:
            fd.pop('input', None)
        return p.enip_encode(fd)

    def parse(b):
        data = env.cpppo.dotdict()
        source = env.cpppo.peekable(bytes(b))
        with p.enip_machine(context='enip', terminal=True) as m:
            with contextlib.closing(m.run(source=source, data=data)) as eng:
                for _ in eng:
                    pass
            term = m.terminal
        sent = source.sent
        enip = data.enip
        if term and 'input' in enip and len(enip.input):
            src2 = env.cpppo.peekable(bytes(enip.input.tobytes() if hasattr(enip.input, 'tobytes') else enip.input))
            with p.CIP(terminal=True) as m2:
                with contextlib.closing(m2.run(source=src2, data=data, path='enip')) as eng:
                    for _ in eng:
                        pass
                term = term and m2.terminal
        elif name == 'unregister':
            pass
        return enip, sent, term
    refb = rc.enc_frame(cmd, ref, session=hdr['session_handle'], status=hdr['status'], context=ctxb, options=hdr['options'])
    return 'frame:' + name, full, produce, refb, parse, None


GENERATORS = {'scalar': k_scalar, 'string': k_string, 'ipaddr': k_ipaddr, 'epath': k_epath, 'status': k_status, 'typed_data': k_typed_data,
              'logix_request': k_logix_request, 'logix_reply': k_logix_reply, 'object_request': k_object_request, 'object_reply': k_object_reply,
              'multiple_request': k_multiple_request, 'multiple_reply': k_multiple_reply, 'forward_open': k_forward_open,
              'forward_open_reply': k_forward_open_reply, 'forward_close': k_forward_close, 'forward_close_reply': k_forward_close_reply,
              'unconnected_send': k_unconnected_send, 'cpf': k_cpf, 'command': k_command, 'frame': k_frame}


def strip_for_compare(kind, f):
    """fields of f that the wire does not carry (so the parse cannot recover them)"""
    import copy
    g = copy.deepcopy(f)
    return g


def one_case(env, kind, rng):
    ctx = env.ctx
    label, f, real_produce, ref, parse, refdec = GENERATORS[kind](env, rng)
    wit = {'kind': kind, 'label': label, 'fields': repr(f)[:3000], 'reference_bytes': ref[:600]}
    import copy
    try:
        real = bytes(real_produce(env.dd(copy.deepcopy(f))))
    except Exception as exc:
        ctx.violation('produce-raises:' + kind, '%s %s: produce raised %r on fields %s' % (kind, label, exc, repr(f)[:300]), wit)
        return
    ctx.case((kind, ref), nontrivial=True)
    ctx.count('kind:' + kind)
    ctx.count('monitor:bytes-equal')
    wit['real_bytes'] = real[:600]
    if real != ref:
        i = next((i for i, (a, b) in enumerate(zip(real, ref)) if a != b), min(len(real), len(ref)))
        ctx.violation('bytes-differ:' + kind, '%s %s: produced %d bytes, reference %d bytes, first difference at offset %d (real %s / ref %s); fields %s' % (
            kind, label, len(real), len(ref), i, real[max(0, i - 4):i + 8].hex(), ref[max(0, i - 4):i + 8].hex(), repr(f)[:300]), wit)
        return
    # (2) parse and compare every encoded field
    try:
        parsed, sent, term = parse(real)
    except Exception as exc:
        ctx.violation('parse-raises:' + kind, '%s %s: parsing its own produced bytes raised %r; fields %s' % (kind, label, exc, repr(f)[:300]), wit)
        return
    ctx.count('monitor:fields-recovered')
    if not term or sent != len(real):
        ctx.violation('parse-incomplete:' + kind, '%s %s: parser consumed %d of %d bytes, terminal=%r; fields %s' % (kind, label, sent, len(real), term, repr(f)[:300]), wit)
        return
    want = f
    if kind == 'string':
        want = {'string': f['string'], 'length': len(f['string'].encode('iso-8859-1'))} if isinstance(f, dict) else f
    if kind in ('logix_request', 'logix_reply', 'object_request', 'object_reply', 'multiple_request', 'multiple_reply') and isinstance(f, dict):
        want = dict(f)
    if kind in ('command', 'frame'):
        want = dict(f)
        cip = want['CIP']
        name, sub = next(iter(cip.items()))
        if sub in ({}, True):
            want.pop('CIP')             # nothing on the wire
    miss = subset(want, parsed) if not isinstance(want, (int, float, str, bool)) else ([] if same_leaf(want, parsed) else ['encoded %r, parsed %r' % (want, parsed)])
    if miss:
        ctx.violation('fields-not-recovered:' + kind, '%s %s: %s' % (kind, label, '; '.join(miss[:4])), wit)
        return
    # (3) regenerate from the parse
    try:
        again = bytes(real_produce(parsed if not isinstance(parsed, (int, float, str, bool)) else parsed))
        ctx.count('monitor:regenerated')
        if again != real:
            ctx.violation('regenerated-bytes-differ:' + kind, '%s %s: producing the parsed message gave %s..., original %s...' % (kind, label, again[:40].hex(), real[:40].hex()), wit)
            return
    except Exception as exc:
        ctx.violation('regenerate-raises:' + kind, '%s %s: producing the parsed message raised %r' % (kind, label, exc), wit)
        return
    # (5) produce is a function of the current field values: the same message object, edited in place after it was produced once, must
    #     encode exactly like a fresh object holding the same values (whatever a first produce leaves behind in the object must not
    #     be mistaken for input later)
    if isinstance(f, dict):
        leaves = []

        def walk(o, path):
            if isinstance(o, dict):
                for k, v in o.items():
                    walk(v, path + (k,))
            elif isinstance(o, list):
                for i, v in enumerate(o):
                    walk(v, path + (i,))
            elif isinstance(o, int) and not isinstance(o, bool) and path and path[-1] not in ('input', 'type_id'):      # type_id selects how an item's .input is read: not an in-place value edit
                leaves.append(path)
        walk(f, ())
        if leaves:
            try:
                d = env.dd(copy.deepcopy(f))
                real_produce(d)
                f2 = copy.deepcopy(f)
                for path in rng.sample(leaves, min(len(leaves), rng.choice([1, 1, 2, 3]))):
                    o2, od = f2, d
                    for k in path[:-1]:
                        o2, od = o2[k], od[k]
                    o2[path[-1]] = o2[path[-1]] ^ 1
                    od[path[-1]] = o2[path[-1]]
                try:
                    fresh = bytes(real_produce(env.dd(copy.deepcopy(f2))))
                except Exception:
                    fresh = None
                    ctx.count('reproduce:edit-not-producible')
                if fresh is not None:
                    reused = bytes(real_produce(d))
                    ctx.count('monitor:reproduce-after-edit')
                    if reused != fresh:
                        ctx.violation('reproduce-after-edit-differs:' + kind, '%s %s: after editing %d field(s) of an already produced message in place, produce gives %s..., a fresh message '
                                      'with the same values gives %s...' % (kind, label, len(f2) and 1, reused[:40].hex(), fresh[:40].hex()), dict(wit, edited=repr(f2)[:2000]))
                        return
            except Exception as exc:
                ctx.violation('reproduce-after-edit-raises:' + kind, '%s %s: %r' % (kind, label, exc), wit)
                return
    # (4) oracle honesty
    if refdec is not None:
        try:
            back = refdec(ref)
        except Exception as exc:
            ctx.inconclusive_because('reference decoder failed on its own encoding of %s %s: %r' % (kind, label, exc))
            return
        ctx.count('monitor:ref-decoded')
        want4 = f
        if kind == 'string':
            want4 = {'string': f['string']}
        m4 = subset(strip_defaults(want4), back) if isinstance(want4, (dict, list)) else ([] if same_leaf(want4, back) else ['%r vs %r' % (want4, back)])
        if m4:
            ctx.inconclusive_because('reference decoder disagrees with reference encoder on %s %s: %s' % (kind, label, m4[:2]))
    if ctx.want_sample() and rng.random() < 0.02:
        ctx.sample({'kind': kind, 'label': label, 'fields': repr(f)[:400], 'bytes': real[:80]})


def strip_defaults(f):
    """get_attributes_all: True style markers are not in the reference decoder's output shape"""
    if isinstance(f, dict):
        return {k: strip_defaults(v) for k, v in f.items() if not (k in ('service_code',) and v is True)}
    if isinstance(f, list):
        return [strip_defaults(v) for v in f]
    return f


def large_frames(env, ctx, rng):
    """The encapsulation length is a 16-bit unsigned field: frames whose payload is as long as it allows (and around the point
    where a signed field would give up) are produced and parsed back.  Header level with an opaque payload; one shard each."""
    p, rc = env.parser, env.rc
    for k, n in enumerate([32767, 32768, 40000, 65535]):
        if k % ctx.nshards != ctx.shard:
            continue
        payload = bytes((i * 7 + n) & 0xFF for i in range(n))
        ctxb = bytes(rng.randrange(256) for _ in range(8))
        sess = rng.randrange(1, 2**32)
        ref = rc.enc_frame(0x6F, payload, session=sess, status=0, context=ctxb, options=0)
        wit = {'frame_payload_bytes': n}
        fd = env.dd({'command': 0x6F, 'session_handle': sess, 'status': 0, 'sender_context': {'input': ctxb}, 'options': 0})
        fd.input = bytearray(payload)
        ctx.count('frame:payload>=32767')
        ctx.case(('large-frame', n), nontrivial=True)
        try:
            real = p.enip_encode(fd)
        except Exception as exc:
            ctx.violation('produce-raises:frame', 'enip_encode of a frame with a %d-byte payload raised %r' % (n, exc), wit)
            continue
        if bytes(real) != ref:
            ctx.violation('bytes-differ:frame', 'frame with a %d-byte payload: header produced %r, reference %r' % (n, bytes(real[:24]), ref[:24]), wit)
            continue
        data = env.cpppo.dotdict()
        source = env.cpppo.peekable(ref + b'\x65\x00')
        try:
            with p.enip_machine(context='enip', terminal=True) as m:
                with contextlib.closing(m.run(source=source, data=data)) as eng:
                    for _ in eng:
                        pass
                term = m.terminal
        except Exception as exc:
            ctx.violation('parse-raises:frame', 'parsing a frame with a %d-byte payload raised %r' % (n, exc), wit)
            continue
        got = bytes(data.enip.input.tobytes() if hasattr(data.enip.input, 'tobytes') else data.enip.input) if 'enip' in data and 'input' in data.enip else None
        if not term or source.sent != 24 + n or got != payload or data.enip.length != n:
            ctx.violation('fields-differ:frame', 'frame with a %d-byte payload parsed to length %r, %r payload bytes, consumed %d, terminal %r' % (
                n, data.get('enip.length'), got and len(got), source.sent, term), wit)


def run(ctx):
    env = Env(ctx)
    rng = ctx.rng
    n = 300 if ctx.tier == 'quick' else 10**7
    large_frames(env, ctx, rng)
    # every general status value on every attribute-service reply, without and with extended status words (a status that one service
    # gives a special meaning to is one value in 255)
    sweep = [(k_, st, ext) for k_ in ('get_attributes_all', 'get_attribute_single', 'get_attribute_list', 'set_attribute_single')
             for st in range(1, 256) for ext in ([], [0x2105], [5, 0xFFFF])]
    for j, item in enumerate(sweep):
        if j % ctx.nshards == ctx.shard:
            FORCED_REPLY.append(item)
            one_case(env, 'object_reply', rng)
            ctx.count('sweep:reply-status-values')
    for i in range(n):
        if ctx.expired():
            break
        for kind in KINDS:
            one_case(env, kind, rng)


def replay(ctx, witness):
    ctx.inconclusive_because('C01 witnesses are re-run by seed (field dictionaries are recorded as text for the reader)')

#!/usr/bin/env python3
"""usage: baseline_cmp.py junit.xml  -- compares a junit result with BASELINE.json's stable_pass list."""
import json, sys, xml.etree.ElementTree as ET
base = json.load(open('/root/.vp/BASELINE.json'))
want = set(base['stable_pass'])
passed = set()
for tc in ET.parse(sys.argv[1]).getroot().iter('testcase'):
    name = '%s::%s' % (tc.get('classname'), tc.get('name'))
    if not any(ch.tag in ('failure', 'error', 'skipped') for ch in tc):
        passed.add(name)
missing = sorted(want - passed)
print('baseline stable: %d, passed now: %d, stable-but-not-passing: %d' % (len(want), len(passed), len(missing)))
for m in missing:
    print('  MISSING', m)
sys.exit(1 if missing else 0)

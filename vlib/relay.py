"""Fault-injecting TCP relay with byte-exact control, used between the cpppo client and the simulator.

A plan applies to the next accepted connection:
    s2c_cut   = N     forward exactly N bytes of the server->client stream, then close both sides
    c2s_cut   = M     forward exactly M bytes of the client->server stream, then close both sides
    s2c_drop  = k     withhold the k-th (0-based) complete server->client frame entirely, deliver the others
    s2c_stall = k     deliver frames before the k-th, then deliver nothing more (connection stays open)
Relay.mute_s2c = True withholds everything sent to the client from now on, on connections already open (replies lost on a
connection that has been used successfully before).
Relay.hold_s2c = True delays instead: what the upstream sends is kept and delivered when the switch is cleared.
The relay records what it delivered (bytes and complete frames, decoded by vlib.refcodec framing).
"""
from __future__ import annotations
import select, socket, threading, time

from . import refcodec as rc


class Relay:
    def __init__(self, upstream):
        self.upstream = upstream
        self.lsock = socket.socket()
        self.lsock.setsockopt(socket.SOL_SOCKET, socket.SO_REUSEADDR, 1)
        self.lsock.bind(('127.0.0.1', 0))
        self.lsock.listen(16)
        self.address = self.lsock.getsockname()
        self.plans = []             # one per upcoming connection; empty => transparent
        self.records = []           # one per handled connection
        self.stop = False
        self.hold_s2c = False       # live switch: while True, what the upstream sends is kept back; it is delivered when the switch is cleared (a slow peer)
        self.mute_s2c = False       # live switch: while True, nothing is forwarded to the client on any connection (they stay open)
        self.thread = threading.Thread(target=self._accept, daemon=True)
        self.thread.start()

    def plan(self, **kw):
        self.plans.append(kw)

    def _accept(self):
        self.lsock.settimeout(0.2)
        while not self.stop:
            try:
                c, _ = self.lsock.accept()
            except socket.timeout:
                continue
            except OSError:
                break
            plan = self.plans.pop(0) if self.plans else {}
            rec = {'plan': plan, 's2c_bytes': 0, 'c2s_bytes': 0, 's2c_frames': 0, 's2c_total_seen': 0, 'done': False}
            self.records.append(rec)
            threading.Thread(target=self._serve, args=(c, plan, rec), daemon=True).start()

    def _serve(self, c, plan, rec):
        try:
            u = socket.create_connection(self.upstream, timeout=5)
        except OSError:
            c.close()
            rec['done'] = True
            return
        for s in (c, u):
            s.setsockopt(socket.IPPROTO_TCP, socket.TCP_NODELAY, 1)
        s2c_buf = b''               # upstream bytes not yet forwarded (frame-wise modes)
        s2c_frames_seen = 0
        delivered = b''
        stalled = False
        held = b''                  # upstream bytes kept back while hold_s2c is set
        try:
            while not self.stop and not rec.get('kill'):
                r, _, _ = select.select([c, u], [], [], 0.05 if held else 0.2)
                if held and not self.hold_s2c:
                    # the delay is over: what the upstream sent meanwhile is delivered now, late
                    try:
                        c.sendall(held)
                        delivered += held
                        rec['s2c_bytes'] += len(held)
                        rec['s2c_late'] = rec.get('s2c_late', 0) + len(held)
                    except OSError:
                        rec['s2c_late_undeliverable'] = rec.get('s2c_late_undeliverable', 0) + len(held)
                    held = b''
                if c in r:
                    d = c.recv(65536)
                    if not d:
                        break
                    cut = plan.get('c2s_cut')
                    if cut is not None:
                        room = cut - rec['c2s_bytes']
                        d = d[:max(0, room)]
                        if d:
                            u.sendall(d)
                            rec['c2s_bytes'] += len(d)
                        if rec['c2s_bytes'] >= cut:
                            time.sleep(0.05)
                            break
                    else:
                        u.sendall(d)
                        rec['c2s_bytes'] += len(d)
                if u in r:
                    d = u.recv(65536)
                    if not d:
                        break
                    rec['s2c_total_seen'] += len(d)
                    if stalled or self.mute_s2c:
                        continue
                    if self.hold_s2c:
                        held += d
                        continue
                    cut = plan.get('s2c_cut')
                    if cut is not None:
                        room = cut - rec['s2c_bytes']
                        d = d[:max(0, room)]
                        if d:
                            c.sendall(d)
                            delivered += d
                            rec['s2c_bytes'] += len(d)
                        if rec['s2c_bytes'] >= cut:
                            # give the upstream a moment so the total stream length can still be observed
                            break
                    elif plan.get('s2c_drop') is not None or plan.get('s2c_stall') is not None:
                        s2c_buf += d
                        frames, s2c_buf = rc.split_frames(s2c_buf)
                        for f in frames:
                            k = s2c_frames_seen
                            s2c_frames_seen += 1
                            if plan.get('s2c_drop') == k:
                                continue
                            if plan.get('s2c_stall') is not None and k >= plan['s2c_stall']:
                                stalled = True
                                break
                            c.sendall(f)
                            delivered += f
                            rec['s2c_bytes'] += len(f)
                    else:
                        c.sendall(d)
                        delivered += d
                        rec['s2c_bytes'] += len(d)
        except OSError:
            pass
        finally:
            frames, rest = rc.split_frames(delivered)
            rec['s2c_frames'] = len(frames)
            rec['s2c_partial'] = len(rest)
            rec['delivered'] = delivered
            for s in (c, u):
                try:
                    s.close()
                except OSError:
                    pass
            rec['done'] = True

    def close(self):
        self.stop = True
        try:
            self.lsock.close()
        except OSError:
            pass
        self.thread.join(2)

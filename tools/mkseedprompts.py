#!/usr/bin/env python3
"""usage: mkseedprompts.py <topdir> CXX=<anchor index> ...   -- creates <topdir>/CXX/cpppo (a detached scratch worktree of /repo, directory
named cpppo so that the repository's suite runs as in the baseline) and <topdir>/CXX/prompt.txt for a fresh sub-agent.  The prompt contains
only the property (title, statement, quantifier, one of its anchor mechanisms) -- nothing from /verif."""
import json, os, subprocess, sys
HERE = os.path.dirname(os.path.dirname(os.path.abspath(__file__)))
props = {json.loads(l)['id']: json.loads(l) for l in open(os.path.join(HERE, 'properties.jsonl'))}
T = '''You are working in a scratch git worktree of the open-source project pjkundert/cpppo (pure-Python EtherNet/IP CIP protocol parser/producer, client and Logix controller simulator, built on an in-repo DFA/automata parsing framework) at {wt} (detached HEAD, clean). Work ONLY inside {wt} (and scratch files under {top}). Do NOT modify /repo, and do NOT read or touch anything under /verif.

The worktree directory is itself named `cpppo`, so it is importable as the package `cpppo` when its parent is on the path:
    cd {wt} && PYTHONPATH={top} /venv/bin/python ...
(without PYTHONPATH={top}, `import cpppo` resolves to another copy -- always set it, and check `cpppo.__file__` once).  There is no network.

PROPERTY that the software is supposed to always satisfy:
  Title: {title}
  Statement: {statement}
  Quantified over: {quant}
  The property rests, among others, on this mechanism of the implementation: {mech} ({where}).  Make your change in or around THIS mechanism (other mechanisms of the property have been examined separately).

YOUR TASK: make a small, realistic change to the LIBRARY code (not the tests) in the worktree that BREAKS this property -- the kind of slip a plausible bug fix, refactoring, optimisation or boundary mistake would introduce -- such that
  (1) everything still imports, and
  (2) the project's existing tests still pass: run the test files relevant to what you touched, e.g.
        cd {wt} && PYTHONPATH={top} /venv/bin/python -m pytest -q -p no:cacheprovider --timeout=900 automata_test.py server/enip_test.py server/logix_test.py server/enip/client_test.py history_test.py dotdict_test.py misc_test.py remote_test.py server/tnet_test.py server/tnetstrings_test.py
      (pick the relevant ones; the full suite takes ~3 minutes).  Some tests fail even WITHOUT any change (those using multiprocessing SyncManager, *_bench, test_client_api_random, udt, hart, powerflex, two modbus tests in remote_test.py), and tests that bind fixed ports can fail with "Address already in use" because other people run the same suite on this machine at the same time (just re-run those).  Establish the baseline first on the clean tree and make sure your change adds no new failure.  NEVER use `git stash` -- the stash is shared with other people's worktrees of this repository; to get a clean tree use `git diff > {top}/my.patch; git apply -R {top}/my.patch` and restore with `git apply {top}/my.patch`.
  (3) the breakage needs something SPECIFIC to manifest: a particular interleaving of threads, a crash/fault at a particular point, a multi-step sequence of operations, an unusual input or boundary value, or two cooperating code sites that each look fine alone.  It must NOT be something ordinary use would expose at once, and it should be subtle: assume a careful reviewer and a broad randomized test harness will look for it.  The input that exposes it must be one the property is quantified over (see "Quantified over"), not a degenerate input outside it.

DELIVERABLES, all in the directory {wt}/seeded_out/ (create it):
  - patch.diff : output of `git diff` containing only your library change (generate it before creating seeded_out, or exclude seeded_out).
  - demo.py    : a standalone program, run as  `cd {wt} && PYTHONPATH={top} /venv/bin/python seeded_out/demo.py`, that exercises the REAL code and exits with status 1 (printing what went wrong) when your change is applied, and exits 0 on the unchanged code.  It must finish within 60 seconds and be deterministic or nearly so.
      Hints for driving the simulator in-process:  import cpppo; from cpppo.server.enip import main as enip_main, client;  ctl = cpppo.apidict(2.0, {{'done': False}});  run enip_main.main(argv=['-a','localhost:0','--no-config','TAG=DINT[10]', ...], server={{'control': ctl}}) in a daemon thread; the bound address appears in ctl['address']; stop with ctl['done']=True.  Client: `with client.connector(host=..., port=...) as conn: list(conn.operate(client.parse_operations(['TAG[0-3]=1,2,3,4','TAG[0-3]']), depth=..., multiple=...))`.
  - notes.md   : what the change does, why the existing tests do not notice it, and exactly what is needed for it to manifest.
Verify BOTH directions yourself: with the change applied demo.py exits 1; with the patch reverse-applied (clean tree) demo.py exits 0; then re-apply it so the change is left APPLIED in the worktree.  In your final answer give a short summary: files changed, the idea, how it manifests, and the results of your two demo runs and of the test run.
'''
topdir = sys.argv[1]
for arg in sys.argv[2:]:
    pid, k = arg.split('=')
    p = props[pid]
    m = p['anchors']['mechanism'][int(k)]
    top = os.path.join(topdir, pid)
    wt = os.path.join(top, 'cpppo')
    os.makedirs(top, exist_ok=True)
    if not os.path.isdir(wt):
        subprocess.run(['git', '-C', '/repo', 'worktree', 'add', '--detach', wt, 'HEAD'], check=True, stdout=subprocess.DEVNULL, stderr=subprocess.DEVNULL)
    open(os.path.join(top, 'prompt.txt'), 'w').write(T.format(wt=wt, top=top, title=p['title'], statement=p['statement'], quant=p['quantifier']['text'], mech=m['name'], where=m['where']))
    print(pid, m['name'][:90])

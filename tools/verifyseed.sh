#!/bin/bash
# usage: tools/verifyseed.sh <top>   where <top>/cpppo is a sub-agent's scratch worktree of /repo (directory named cpppo, so
# that the repository's suite runs exactly as in the baseline: cwd inside the tree, package importable as cpppo via PYTHONPATH=<top>).
# Confirms the seeded change myself: (a) the diff touches library code only and equals seeded_out/patch.diff, (b) demo.py exits 1
# with it and 0 without, (c) the repository's whole test suite on the worktree with the change applied still passes every
# baseline-stable test.  Never uses git stash (shared between worktrees).
top="$1"; wt="$top/cpppo"
cd "$wt" || exit 2
git diff > "$top/cur.patch"
echo "== files changed:"; git diff --stat | cat
if ! diff -q <(grep -v '^index ' "$top/cur.patch") <(grep -v '^index ' seeded_out/patch.diff) >/dev/null; then echo "!! worktree diff differs from seeded_out/patch.diff"; fi
echo "== demo with change:"; (PYTHONPATH="$top" timeout 180 /venv/bin/python seeded_out/demo.py 2>&1 | tail -4; echo "exit ${PIPESTATUS[0]}")
git apply -R "$top/cur.patch" || { echo "cannot reverse"; exit 2; }
echo "== demo without change:"; (PYTHONPATH="$top" timeout 180 /venv/bin/python seeded_out/demo.py 2>&1 | tail -2; echo "exit ${PIPESTATUS[0]}")
git apply "$top/cur.patch" || { echo "cannot re-apply"; exit 2; }
echo "== test suite with change:"
(PYTHONPATH="$top" /venv/bin/python -m pytest -ra -q -p no:cacheprovider --timeout=900 --continue-on-collection-errors --junitxml="$top/junit.xml" > "$top/tests.log" 2>&1; tail -1 "$top/tests.log")
python3 - "$top" <<'PY'
import json, sys, xml.etree.ElementTree as ET
base = json.load(open('/root/.vp/BASELINE.json'))
want = set(base['stable_pass'])
passed = set()
for tc in ET.parse(sys.argv[1] + '/junit.xml').getroot().iter('testcase'):
    cn = tc.get('classname')
    cn = cn[6:] if cn.startswith('cpppo.') else cn
    if not any(ch.tag in ('failure', 'error', 'skipped') for ch in tc):
        passed.add('%s::%s' % (cn, tc.get('name')))
missing = sorted(want - passed)
print('baseline-stable tests: %d, not passing with the change: %d' % (len(want), len(missing)))
for m in missing:
    print('  MISSING', m)
PY

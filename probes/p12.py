from drv import *
import time
# C04 exhaustive small
bad=0; n=0; t=time.time()
for (cls,fmt,typ,siz) in ((parser.SINT,'<b',0xc2,1),(parser.INT,'<h',0xc3,2),(parser.DINT,'<i',0xc4,4),(parser.LINT,'<q',0xc5,8)):
  for N in range(1,7):
    sim = Sim( {'T': (cls, list(range(1,N+1)) if N>1 else 1)} )
    vals = list(range(1,N+1))
    for B in range(1,3*siz+2):
      logix.Logix.MAX_BYTES = B
      for i in range(N):
        for cnt in range(1,N-i+1):
          off=0; got=[]; frags=0; ok=True
          while True:
            r = sim.mr( read_frag('T', i, cnt, off ))
            frags+=1
            if not isinstance(r,bytes) or r[0]!=0xd2: ok=False; why=('reply',r); break
            st=r[2]; 
            if st not in (0,6): ok=False; why=('status',st,r); break
            ty=struct.unpack_from('<H',r,4)[0]; data=r[6:]
            if len(data)%siz or len(data)<siz: ok=False; why=('size',len(data)); break
            if len(data) > -(-B//siz)*siz: ok=False; why=('toobig',len(data),B); break
            got += [struct.unpack_from(fmt,data,k)[0] for k in range(0,len(data),siz)]
            off += len(data)
            if st==0: break
            if frags>cnt: ok=False; why=('noprogress',); break
          n+=1
          if ok and got != vals[i:i+cnt]: ok=False; why=('data',got,vals[i:i+cnt])
          if not ok:
            bad+=1
            if bad<6: print('BAD', cls.__name__, N,B,i,cnt, why)
logix.Logix.MAX_BYTES = 488
print( n, bad, time.time()-t )

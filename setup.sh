#!/bin/bash
# Run once after a fresh restore, offline.  Pure-Python framework: nothing to compile.  Installs the
# optional contract library (icontract) beside the framework from the offline wheelhouse; every check
# retries this itself if .deps is missing, and falls back to plain wrapper monitors if it fails.
cd "$(dirname "${BASH_SOURCE[0]}")" || exit 1
export PIP_NO_INDEX=1
[ -d .deps/icontract ] || /venv/bin/python -m pip install --quiet --no-index --find-links /opt/veriftools/wheels --target .deps icontract \
  || echo "setup: icontract not installed; plain wrapper monitors will be used"
mkdir -p evidence/replay
/venv/bin/python -c "import sys; sys.path.insert(0,'.'); from vlib import env; print('tree under test:', env.setup())"

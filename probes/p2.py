from cpppo.remote.plc_modbus import merge, shatter
print( list( merge( [(1,10),(2,1)] )))
print( list( merge( [(1,10),(2,1),(40001,5),(40003,1)], reach=5 )))
print( list( merge( [(5,1),(5,1)] )))
print( list( merge( [(9999,1),(10001,1)], reach=10 )))
print( list( merge( [(1,3000)] )))
try: print( list( merge( [] )))
except Exception as e: print("empty:", type(e), e)
from cpppo.dotdict import dotdict
d = dotdict()
try:
    d['keys.a'] = 1; print("interior reserved accepted:", dict.keys(d), d['keys.a'], 'keys' in d, list(d))
except KeyError as e: print("refused", e)
d = dotdict()
try:
    d['a.keys'] = 1; print("leaf accepted")
except KeyError as e: print("leaf refused", e)
d = dotdict(); d.a = [dotdict(x=1), dotdict(y=2)]
print( list(d.items()) )
try: print( d.pop('a[0].x') )
except Exception as e: print("pop idx:", type(e), e)
try:
    del d['a[0].x']; print("del idx ok", list(d.items()))
except Exception as e: print("del idx:", type(e), e)
d=dotdict(); d['a.b.c']=1; d['a.b..d']=2; print(list(d.items()), d['a.b..d'], 'a.b..d' in d)
import copy
d=dotdict(); d.a=[dotdict(x=1)]; d.b=dotdict(c=1)
c=copy.copy(d); c['a[0].x']=9; c['b.c']=5; c['b.z']=1; print(d, c)

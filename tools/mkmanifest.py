#!/usr/bin/env python3
"""Regenerates /verif/MANIFEST.json from the check modules present in checks/ (META dict of each) so
the manifest is valid at every commit.  Properties without a check module are listed under
not_applicable with the reason given in PENDING below (none should remain at the end)."""
import importlib, json, os, sys

HERE = os.path.dirname(os.path.dirname(os.path.abspath(__file__)))
sys.path.insert(0, HERE)

BASELINE_OFF = ("cd /repo && /venv/bin/python -m pytest -ra -q -p no:cacheprovider --timeout=900 "
                "--continue-on-collection-errors")

NOT_APPLICABLE = {}     # property id -> reason (filled only if a property really cannot be monitored)


def main():
    props = [json.loads(l) for l in open(os.path.join(HERE, 'properties.jsonl'))]
    checks, na = [], []
    for p in props:
        pid = p['id']
        path = os.path.join(HERE, 'checks', pid.lower() + '.py')
        if pid in NOT_APPLICABLE:
            na.append({'property_id': pid, 'reason': NOT_APPLICABLE[pid]})
            continue
        if not os.path.exists(path):
            na.append({'property_id': pid, 'reason': 'monitor designed (DESIGN.md section 3) but not built yet; not claimed'})
            continue
        src = open(path).read()
        ns = {}
        # META is a plain literal dict at module level; evaluate only that, do not import cpppo here
        start = src.index('META = ')
        end = src.index('\n}\n', start) + 3
        exec(src[start:end], ns)
        meta = ns['META']
        checks.append({
            'property_id': pid,
            'quick_cmd': './check %s --tier quick' % pid,
            'thorough_cmd': './check %s --tier thorough' % pid,
            'evidence_file': 'evidence/%s.json' % pid,
            'replay_cmd_template': './check %s --replay {path}' % pid,
            'engine': 'cpppo-runtime-monitors',
            'level_claimed': {'category': meta['level'], 'text': meta['text'], 'design_ref': 'DESIGN.md section 3, ' + pid},
            'level_note': meta['note'],
            'technique': meta['technique'],
        })
    man = {
        'version': 1,
        'setup_cmd': './setup.sh',
        'hooks': {
            'guard': 'CPPPO_VERIF',
            'enable': 'none needed: the checks import /repo\'s working tree directly and attach monitors from outside '
                      '(wrapping, sys.monitoring, replaced module globals); no guarded hook exists in /repo',
            'baseline_off_cmd': BASELINE_OFF,
            'source_commits': [],
            'add_only': True,
        },
        'engines': [{
            'name': 'cpppo-runtime-monitors', 'path': 'vlib/',
            'serves_properties': [c['property_id'] for c in checks],
            'kind_free_text': 'runtime monitoring: real code driven by generated/hostile/stress workloads under '
                              'reference-model, history and invariant monitors (vlib/runner.py shards the workload over '
                              'worker processes and merges what the monitors observed into the evidence file)'}],
        'checks': checks,
        'notes': 'exit 0 held on everything observed / 1 VIOLATION / 2 INCONCLUSIVE (watchdog, monitor never reached). '
                 'Genuine defects: known_findings.json (status known => KNOWN-FINDING line, exit 0; status fixed => suppresses nothing).',
        'not_applicable': na,
    }
    with open(os.path.join(HERE, 'MANIFEST.json'), 'w') as f:
        json.dump(man, f, indent=1)
        f.write('\n')
    print('checks: %s' % ' '.join(c['property_id'] for c in checks))
    print('not claimed: %s' % ' '.join(n['property_id'] for n in na))


if __name__ == '__main__':
    main()

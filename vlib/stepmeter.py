"""Logical step counting with sys.monitoring (Python 3.12+): counts PY_START / PY_RESUME events of code objects
whose file lies inside the tree under test.  Used to decide "processing time bounded by the input length"
on logical steps instead of wall-clock; a hard cap raises StepBudgetExceeded (a BaseException, so the
library's `except Exception` handlers do not swallow it) which turns a would-be hang into a witness."""
from __future__ import annotations
import sys


class StepBudgetExceeded(BaseException):
    pass


class Meter:
    TOOL = 3            # a free tool id (0 debugger, 1 coverage, 2 profiler, 5 optimizer are conventional)

    def __init__(self, tree):
        self.tree = tree.rstrip('/') + '/'
        self.count = 0
        self.cap = None
        self.active = False
        self.mon = getattr(sys, 'monitoring', None)

    def available(self):
        return self.mon is not None

    def start(self):
        if not self.available() or self.active:
            return
        mon = self.mon
        try:
            mon.use_tool_id(self.TOOL, 'cpppo-verif-stepmeter')
        except ValueError:
            pass
        ev = mon.events

        def on_start(code, offset):
            if code.co_filename.startswith(self.tree) or '/cpppo/' in code.co_filename:
                self.count += 1
                if self.cap is not None and self.count > self.cap:
                    self.cap = None         # raise once
                    raise StepBudgetExceeded('more than the step cap')
                return None
            return mon.DISABLE              # code outside the tree: stop reporting this location
        mon.register_callback(self.TOOL, ev.PY_START, on_start)
        mon.register_callback(self.TOOL, ev.PY_RESUME, on_start)
        mon.set_events(self.TOOL, ev.PY_START | ev.PY_RESUME)
        self.active = True

    def stop(self):
        if self.active:
            self.mon.set_events(self.TOOL, 0)
            self.mon.register_callback(self.TOOL, self.mon.events.PY_START, None)
            self.mon.register_callback(self.TOOL, self.mon.events.PY_RESUME, None)
            try:
                self.mon.free_tool_id(self.TOOL)
            except Exception:
                pass
            self.active = False

    def measure(self, fn, cap=None):
        """-> (result, steps).  Raises StepBudgetExceeded if cap is exceeded."""
        self.count = 0
        self.cap = cap
        try:
            return fn(), self.count
        finally:
            self.cap = None

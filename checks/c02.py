"""C02 -- message framing ignores stream segmentation; an incomplete frame has no effect.

(A) parser level: streams of frames are fed to the real enip_machine through a chainable source in
every two-way split, byte-at-a-time and seeded k-way splits, exactly the way enip_srv_tcp and
client.__next__ feed it; parsed frames and the consumed-symbol count are compared with reference
slicing.  The client's own receive loop (client.client.__next__) is driven by a harness server that
segments a reply stream.
(B) server level (fault enumeration): the real TCP simulator receives every prefix of a request
stream followed by EOF; replies, tag state, a long-lived second session, a fresh session and the
connection table are compared with the array model applied to the complete frames only.
"""
from __future__ import annotations
import socket, struct, threading, time

PROPERTY = 'C02'
META = {
    'level': 'fault_enumeration',
    'technique': 'reference-slicing monitor on the real frame parser under enumerated chunkings + fault enumeration of every truncation offset of a request stream against the real TCP server with state/liveness oracles',
    'text': 'While a cut stream is still pending (before its end) the long-lived session reads a tag and a new connection registers, on alternate trials; at the client, a scripted peer in lockstep mode stays quiet after each frame (header-only refusals and NOPs among them) until the client has delivered it, so a frame held back until more input arrives is seen. Parser level: streams of 1..6 frames (payloads 0, 1, odd, even, up to 9 kB so a frame spans several recv blocks) are chunked in every two-way split exhaustively, byte-at-a-time, '
            'seeded k-way and all-in-one, and fed to the real enip_machine the way the server and the client do; every parsed header field, payload and the running sent count must equal reference '
            'slicing (24 + declared length per frame). The cpppo client receive loop is driven by a harness server that segments a reply stream the same ways (replies, Register replies and NOP keep-alives, i.e. frames whose first byte is zero; also two frames coalesced per receive). Server level: a request stream '
            '(writes, reads, a bundle) is cut at truncation offsets (quick: every offset in the last write frame, every frame boundary +-1, header field boundaries and a seeded sample; thorough: '
            'every offset), delivered in a seeded chunking and followed by EOF. Replies must be exactly those of the frames wholly delivered, tag contents (in-process inspection and a '
            'long-lived second session) must equal the model applied to those frames only, a fresh session must work, and the connection table must return to its baseline.',
    'note': 'An empty chunk is EOF by definition of the socket API and is not a chunking. The Register Session exchange is completed before the truncated part so that real session handles are used; '
            'truncated Register frames are enumerated separately.',
}
LEVEL = META['level']
RULE = ('a case = one (stream, chunking) parsed, or one (stream, truncation offset, chunking) delivered to the server; chunkings/offsets enumerated as described; distinct by the tuple; '
        'non-trivial = the stream has >= 2 frames or the cut falls inside a frame')
ASSUMPTIONS = ['the server is given 3 s to close a connection after EOF (wall-clock only guards; exceeding it is inconclusive, not a violation)']
REQUIRED = ['client:lockstep-streams', 'client:header-only-replies', 'monitor:served-while-frame-pending', 'parser:truncated-then-eof', 'trunc:long-stream', 'parser:source-rememberable', 'parser:source-chainable', 'parser:streams', 'parser:two-way-splits', 'parser:bytewise', 'parser:k-way', 'parser:frame-spanning-recv-blocks', 'parser:zero-length-payload',
            'client:streams', 'client:responses', 'client:nop-frames', 'trunc:trials', 'trunc:inside-header', 'trunc:inside-payload', 'trunc:on-frame-boundary', 'trunc:inside-write-frame',
            'trunc:register-frame', 'monitor:state-equals-complete-frames-only', 'monitor:second-session-alive', 'monitor:fresh-session', 'monitor:connection-table-baseline',
            'monitor:reply-count']
TIMEOUT = {'quick': 300, 'thorough': 2400}
SOFT = {'quick': 35, 'thorough': 600}


def shards(tier):
    return 4 if tier == 'quick' else 16


# ---------------------------------------------------------------- (A) parser level
def gen_stream(rng):
    from vlib import refcodec as rc
    frames = []
    for _ in range(rng.choice([1, 2, 2, 3, 4, 6])):
        n = rng.choice([0, 0, 1, 2, 3, 4, 7, 16, 31, 64, 255, 1000, 4095, 4096, 4097, 9000]) if rng.random() < 0.7 else rng.randrange(0, 300)
        payload = bytes(rng.randrange(256) for _ in range(min(n, 64))) * (n // 64 + 1)
        payload = payload[:n]
        frames.append(rc.enc_frame(rng.choice([0x65, 0x6F, 0x70, 0x04, 0x63, 0x1234]), payload, session=rng.randrange(2**32), status=rng.choice([0, 0, 1]),
                                   context=bytes(rng.randrange(256) for _ in range(8)), options=rng.randrange(2**32)))
    return frames


def parse_stream(cpppo, parser, chunks, nframes, remembering=False):
    """one machine, one source, one run per frame -- the loop of enip_srv_tcp (which uses a remembering source and forgets before
    every frame) or of the client (plain chainable source)"""
    import contextlib
    source = cpppo.rememberable() if remembering else cpppo.chainable()
    chunks = list(chunks)
    out = []
    with parser.enip_machine(context='enip') as machine:
        for _ in range(nframes + 1):
            data = cpppo.dotdict()
            eof = False
            if remembering:
                source.forget()
            with contextlib.closing(machine.run(path='request', source=source, data=data)) as engine:
                for mch, sta in engine:
                    if sta is not None:
                        continue
                    if source.peek() is not None:
                        continue
                    if not chunks:
                        eof = True
                        break
                    source.chain(chunks.pop(0))
            term = machine.terminal
            out.append((data, source.sent, term, eof))
            if eof or 'request' not in data:
                break
    return out


def check_truncated(ctx, cpppo, parser, frames, cut, remembering):
    """stream[:cut] and then end-of-stream, signalled the way enip_srv_tcp does (an empty block is chained and the engine resumed):
    exactly the frames that lie wholly before the cut may come out as messages"""
    import contextlib
    stream = b''.join(frames)
    source = cpppo.rememberable() if remembering else cpppo.chainable()
    chunks = [stream[:cut]] if cut else []
    complete, pos = 0, 0
    for f in frames:
        pos += len(f)
        if pos <= cut:
            complete += 1
    delivered = 0
    wit = {'frames': [len(f) for f in frames], 'cut': cut, 'source': 'rememberable' if remembering else 'chainable', 'stream': stream[:400]}
    try:
        with parser.enip_machine(context='enip') as machine:
            for _ in range(len(frames) + 1):
                data = cpppo.dotdict()
                if remembering:
                    source.forget()
                eof = False
                steps = 0
                with contextlib.closing(machine.run(path='request', source=source, data=data)) as engine:
                    for mch, sta in engine:
                        steps += 1
                        if steps > 100000:
                            raise RuntimeError('no termination at end of stream')
                        if sta is not None or source.peek() is not None:
                            continue
                        if chunks:
                            source.chain(chunks.pop(0))
                        elif not eof:
                            eof = True
                            source.chain(b'')
                        # else: resumed at end of stream with nothing new, as the server's loop does
                if 'request' in data:           # what enip_srv_tcp goes by once the run has ended without an exception
                    delivered += 1
                    e = data.request.enip
                    if len(bytes(e.input.tobytes()) if 'input' in e else b'') != e.length:
                        ctx.violation('incomplete-frame-delivered-as-message', 'stream of %d bytes cut at %d: a message with %d of its declared %d payload bytes was delivered' % (
                            len(stream), cut, len(e.input) if 'input' in e else 0, e.length), wit)
                        return
                if eof:
                    break
    except Exception:
        pass                    # failing at the truncated frame is what is expected
    ctx.count('parser:truncated-then-eof')
    ctx.case(('trunc-parse', stream[:100], len(stream), cut, remembering))
    if delivered > complete:
        ctx.violation('incomplete-frame-delivered-as-message', 'stream of %d bytes cut at %d then end-of-stream: %d messages delivered, only %d frames are complete' % (
            len(stream), cut, delivered, complete), wit)


def check_parse(ctx, cpppo, parser, frames, chunks, label):
    from vlib import refcodec as rc
    stream = b''.join(frames)
    wit = {'frames': [len(f) for f in frames], 'chunks': [len(c) for c in chunks][:80], 'chunking': label, 'stream': stream[:400]}
    remembering = (len(stream) + len(chunks)) % 2 == 1
    wit['source'] = 'rememberable' if remembering else 'chainable'
    ctx.count('parser:source-' + wit['source'])
    try:
        res = parse_stream(cpppo, parser, chunks, len(frames), remembering)
    except Exception as exc:
        ctx.violation('framing-raises', '%s chunking of %d frames (%s source) raised %r' % (label, len(frames), wit['source'], exc), wit)
        return
    ctx.case((stream[:200], len(stream), tuple(len(c) for c in chunks)), nontrivial=len(frames) >= 2)
    ctx.count('parser:' + label)
    pos = 0
    parsed = [r for r in res if 'request' in r[0]]
    if len(parsed) != len(frames):
        ctx.violation('frame-count-differs', '%s chunking: %d frames parsed, stream holds %d' % (label, len(parsed), len(frames)), wit)
        return
    for k, (f, (data, sent, term, eof)) in enumerate(zip(frames, parsed)):
        pos += len(f)
        h = rc.dec_header(f)
        h['body'] = f[24:]
        e = data.request.enip
        payload = bytes(e.input.tobytes()) if 'input' in e else b''
        got = (e.command, e.length, e.session_handle, e.status, bytes(e.sender_context.input.tobytes()), e.options, payload)
        want = (h['command'], h['length'], h['session_handle'], h['status'], h['sender_context'], h['options'], h['body'])
        if got != want:
            fld = [n for n, a, b in zip(('command', 'length', 'session_handle', 'status', 'sender_context', 'options', 'payload'), got, want) if a != b]
            ctx.violation('parsed-frame-differs', '%s chunking: frame %d fields %r differ from the bytes sent' % (label, k, fld), wit)
            return
        if sent != pos:
            ctx.violation('frame-consumes-wrong-length', '%s chunking: after frame %d source.sent=%d terminal=%r, reference slicing says %d' % (label, k, sent, term, pos), wit)
            return
        if h['length'] == 0:
            ctx.count('parser:zero-length-payload')
        if h['length'] > 4096:
            ctx.count('parser:frame-spanning-recv-blocks')


def parser_level(ctx, rng, budget_s):
    import cpppo
    from cpppo.server.enip import parser
    t_end = time.monotonic() + budget_s
    n = 0
    while time.monotonic() < t_end:
        frames = gen_stream(rng)
        stream = b''.join(frames)
        n += 1
        ctx.count('parser:streams')
        check_parse(ctx, cpppo, parser, frames, [stream], 'all-in-one')
        # end-of-stream inside the last frame, in particular one byte before its end
        for cut in sorted(set([len(stream) - 1, len(stream) - 2, len(stream) - len(frames[-1]) + 23, len(stream) - len(frames[-1]) + 24] + [rng.randrange(0, len(stream)) for _ in range(3)])):
            if 0 <= cut < len(stream):
                check_truncated(ctx, cpppo, parser, frames, cut, remembering=(cut + n) % 2 == 0)
        if len(stream) <= 400:
            for cut in range(1, len(stream)):
                check_parse(ctx, cpppo, parser, frames, [stream[:cut], stream[cut:]], 'two-way-splits')
            check_parse(ctx, cpppo, parser, frames, [stream[i:i + 1] for i in range(len(stream))], 'bytewise')
        else:
            for cut in sorted(set([1, 23, 24, 25, len(frames[0]) - 1, len(frames[0]), len(frames[0]) + 1, 4096, len(stream) - 1] + [rng.randrange(1, len(stream)) for _ in range(6)])):
                if 0 < cut < len(stream):
                    check_parse(ctx, cpppo, parser, frames, [stream[:cut], stream[cut:]], 'two-way-splits')
            # recv(4096)-sized blocks, as the server reads them
            check_parse(ctx, cpppo, parser, frames, [stream[i:i + 4096] for i in range(0, len(stream), 4096)], 'k-way')
        for _ in range(3):
            k = rng.randrange(2, 8)
            cuts = sorted(set(rng.randrange(1, len(stream)) for _ in range(k))) if len(stream) > 1 else []
            chunks = [stream[a:b] for a, b in zip([0] + cuts, cuts + [len(stream)])]
            check_parse(ctx, cpppo, parser, frames, chunks, 'k-way')
        if ctx.want_sample() and n % 7 == 1:
            ctx.sample({'parser_stream_frames': [len(f) for f in frames], 'two_way_splits': max(0, len(stream) - 1) if len(stream) <= 400 else 'sampled'})


# ---------------------------------------------------------------- client receive loop
def client_level(ctx, rng, rounds):
    from vlib import refcodec as rc
    from cpppo.server.enip import client
    for _ in range(rounds):
        frames, wants = [], []
        sess = rng.randrange(1, 2**32)
        for k in range(rng.choice([1, 2, 3, 5])):
            c = struct.pack('<Q', rng.getrandbits(64))
            r = rng.random()
            if r < 0.25:
                frames.append(rc.enc_frame(0x65, struct.pack('<HH', 1, 0), session=sess, context=c))
                wants.append((0x65, c, None))
            elif r < 0.33:
                # a refusal: a reply header with a non-zero status and no payload at all
                frames.append(rc.enc_frame(0x6F, b'', session=sess, status=rng.choice([0x01, 0x08, 0x64]), context=c))
                wants.append((0x6F, c, None))
                ctx.count('client:header-only-replies')
            elif r < 0.5:
                # NOP (command 0x0000, the keep-alive either end may send): a frame whose first byte is zero
                frames.append(rc.enc_frame(0x0000, b'', session=sess, context=c))
                wants.append((0x0000, c, None))
                ctx.count('client:nop-frames')
            else:
                n = rng.choice([1, 2, 50, 120])
                vals = [rng.randrange(-2**31, 2**31) for _ in range(n)]
                cip = rc.enc_reply({'service': 0xCC, 'status': 0, 'read_tag': {'type': 0xC4, 'data': vals}})
                frames.append(rc.rr_frame(cip, sess, c))
                wants.append((0x6F, c, vals))
        stream = b''.join(frames)
        mode = rng.choice(['bytewise', 'two-way', 'k-way', 'whole', 'whole', 'frame-pairs', 'lockstep', 'lockstep'])
        delivered = [threading.Event() for _ in frames]
        held = []
        per_frame = None
        if mode == 'lockstep':
            # the peer stays quiet after each frame until the client has delivered it: a complete frame is available as a message
            # without anything that follows (the next frame's bytes, or the end of the stream)
            per_frame = []
            for f in frames:
                cuts = sorted(set(rng.randrange(1, len(f)) for _ in range(rng.choice([0, 0, 1, 2])))) if len(f) > 1 else []
                per_frame.append([f[a:b] for a, b in zip([0] + cuts, cuts + [len(f)])])
            chunks = [c for pf in per_frame for c in pf]
            ctx.count('client:lockstep-streams')
        elif mode == 'frame-pairs':
            # receive boundaries on frame boundaries, two frames coalesced per chunk
            chunks = [b''.join(frames[i:i + 2]) for i in range(0, len(frames), 2)]
        elif mode == 'bytewise':
            chunks = [stream[i:i + 1] for i in range(len(stream))]
        elif mode == 'two-way':
            cut = rng.randrange(1, len(stream))
            chunks = [stream[:cut], stream[cut:]]
        elif mode == 'k-way':
            cuts = sorted(set(rng.randrange(1, len(stream)) for _ in range(rng.randrange(2, 9))))
            chunks = [stream[a:b] for a, b in zip([0] + cuts, cuts + [len(stream)])]
        else:
            chunks = [stream]
        lst = socket.socket()
        lst.bind(('127.0.0.1', 0))
        lst.listen(1)

        def serve():
            conn, _ = lst.accept()
            conn.setsockopt(socket.IPPROTO_TCP, socket.TCP_NODELAY, 1)
            try:
                if per_frame is not None:
                    for k, pf in enumerate(per_frame):
                        for c in pf:
                            conn.sendall(c)
                            time.sleep(0.002)
                        if not delivered[k].wait(10):       # a watchdog for "never"; the verdict is causal (see below)
                            held.append(k)
                    return
                for i, c in enumerate(chunks):
                    conn.sendall(c)
                    if len(chunks) < 40 or i % 16 == 0:
                        time.sleep(0.002)
            finally:
                time.sleep(0.05)
                conn.close()
        th = threading.Thread(target=serve, daemon=True)
        th.start()
        wit = {'frames': [len(f) for f in frames], 'chunks': [len(c) for c in chunks][:60], 'mode': mode}
        got = []
        try:
            cli = client.client(host='127.0.0.1', port=lst.getsockname()[1], timeout=5)
            t0 = time.monotonic()
            with cli:
                # the documented way to receive: await_response waits for readability before re-entering the framer
                while time.monotonic() - t0 < (10 if per_frame is None else 20 + 12 * len(frames)):
                    rsp, ela = client.await_response(cli, timeout=5)
                    if rsp is None and per_frame is not None and len(got) < len(frames):
                        continue        # nothing yet: the quiet peer is waiting for us
                    if not rsp:         # {} = EOF between frames, None = timeout
                        break
                    got.append(rsp)
                    if len(got) <= len(delivered):
                        delivered[len(got) - 1].set()
            cli.close()
        except Exception as exc:
            ctx.violation('client-framing-raises', 'client receive loop (%s) raised %r after %d responses' % (mode, exc, len(got)), wit)
            continue
        finally:
            th.join(5)
            lst.close()
        ctx.count('client:streams')
        ctx.count('client:responses', len(got))
        ctx.case(('client', stream[:100], tuple(len(c) for c in chunks)))
        if held and len(got) == len(wants):
            ctx.violation('client-holds-complete-frame-until-more-input', 'frame(s) %r of %d, wholly received, were not delivered while the peer stayed quiet (10 s watchdog); '
                          'they were delivered once the next frame or the end of the stream arrived' % (held, len(frames)), dict(wit, held=held))
            continue
        if len(got) != len(wants):
            ctx.violation('client-frame-count-differs', 'client yielded %d responses for %d frames (%s)' % (len(got), len(wants), mode), wit)
            continue
        for k, (rsp, (cmd, c, vals)) in enumerate(zip(got, wants)):
            e = rsp.enip
            ok = e.command == cmd and bytes(e.sender_context.input.tobytes()) == c and e.session_handle == sess
            if ok and vals is not None:
                try:
                    ok = list(e.CIP.send_data.CPF.item[1].unconnected_send.request.read_tag.data) == vals
                except Exception:
                    ok = False
            if not ok:
                ctx.violation('client-parsed-frame-differs', 'client response %d differs from the frame sent (%s)' % (k, mode), wit)
                break


# ---------------------------------------------------------------- (B) server level truncation
CFG = [('W', 'DINT', 8, None), ('V', 'INT', 4, '0x93/1/2'), ('X', 'REAL', 1, None)]


def request_list(rng):
    reqs = [
        {'path': {'segment': [{'symbolic': 'W'}, {'element': 1}]}, 'write_tag': {'type': 0xC4, 'elements': 3, 'data': [rng.randrange(1, 10**6) for _ in range(3)]}},
        {'path': {'segment': [{'symbolic': 'W'}]}, 'read_tag': {'elements': 8}},
        {'path': {'segment': [{'symbolic': 'V'}]}, 'write_frag': {'type': 0xC3, 'elements': 4, 'offset': 4, 'data': [rng.randrange(1, 30000), rng.randrange(1, 30000)]}},
        {'path': {'segment': [{'class': 2}, {'instance': 1}]}, 'multiple': {'request': [
            {'path': {'segment': [{'symbolic': 'X'}]}, 'write_tag': {'type': 0xCA, 'elements': 1, 'data': [float(rng.randrange(1, 1000))]}},
            {'path': {'segment': [{'symbolic': 'V'}]}, 'read_tag': {'elements': 4}}]}},
        {'path': {'segment': [{'symbolic': 'W'}, {'element': 6}]}, 'write_tag': {'type': 0xC4, 'elements': 2, 'data': [rng.randrange(1, 10**6), rng.randrange(1, 10**6)]}},
    ]
    rng.shuffle(reqs)
    return reqs


def reset_tags(sim):
    for name, a in sim.attributes().items():
        if a.scalar:
            a[0] = 0.0 if name == 'X' else 0
        else:
            a[0:len(a)] = [0] * len(a)


def read_everything(client, model, ctx, wit, who):
    from vlib import refcodec as rc, simcheck
    for name, n in (('W', 8), ('V', 4), ('X', 1)):
        rq = {'path': {'segment': [{'symbolic': name}]}, 'read_tag': {'elements': n}}
        fr = client.rr(rc.enc_request(rq))
        if fr is None or fr['status'] != 0:
            ctx.violation('other-session-broken-by-truncated-stream', '%s: read of %s failed after a truncated stream elsewhere (%r)' % (who, name, fr and fr['status']), wit)
            return False
        mm = simcheck.reply_mismatch(rc.dec_reply(fr['cip']), model.apply(rq))
        if mm:
            ctx.violation('incomplete-frame-had-an-effect', '%s reads %s: %s' % (who, name, '; '.join(mm[:2])), wit)
            return False
    return True


import itertools
_PROBE_TURN = itertools.count()


def pending_frame(frames, t):
    """does a stream cut at t leave a partially delivered frame behind?"""
    pos = 0
    for f in frames:
        if pos < t < pos + len(f):
            return True
        pos += len(f)
    return False


def probe_while_pending(ctx, sim, second, pending_sock, model, wit):
    """A peer has delivered part of a frame and is idle.  The long-lived second session and a brand-new session must be served meanwhile.
    The verdict is causal, not a deadline: a reply that does not come within a 10 s watchdog but does come once the idle peer ends its
    stream was held back by the unfinished frame."""
    from vlib import refcodec as rc, simcheck, simdrv
    rq = {'path': {'segment': [{'symbolic': 'W'}]}, 'read_tag': {'elements': 8}}
    fresh = None
    try:
        second.send(rc.rr_frame(rc.enc_unconnected_send(rc.enc_request(rq)), second.session, b'PENDING0'))
        fresh = simdrv.RawClient(sim.address)
        fresh.send(rc.register_frame(b'PENDING1'))
        got = {'second': second.recv_frame(10.0), 'fresh': None}
        got['fresh'] = fresh.recv_frame(10.0 if got['second'] is not None else 0.5)
        ctx.count('monitor:served-while-frame-pending')
        if got['second'] is None or got['fresh'] is None:
            who = 'the long-lived second session' if got['second'] is None else 'a new session (Register)'
            try:
                pending_sock.shutdown(socket.SHUT_WR)
            except OSError:
                pass
            late = second.recv_frame(10.0) if got['second'] is None else fresh.recv_frame(10.0)
            if late is not None:
                ctx.violation('other-session-held-by-incomplete-frame', '%s got no reply while another connection had delivered part of a frame and was idle; '
                              'the reply came once that connection ended its stream' % who, wit)
            else:
                ctx.violation('other-session-broken-by-truncated-stream', '%s got no reply while another connection had delivered part of a frame, nor after it ended' % who, wit)
            return False
        fr = rc.dec_frame(got['second'])
        mm = ['encapsulation status %d' % fr['status']] if fr['status'] else simcheck.reply_mismatch(rc.dec_reply(fr['cip']), model.apply(rq))
        if mm:
            ctx.violation('incomplete-frame-had-an-effect', 'second session reads W while a frame is pending elsewhere: %s' % '; '.join(mm[:2]), wit)
            return False
        if rc.dec_frame(got['fresh'])['status'] != 0:
            ctx.violation('other-session-broken-by-truncated-stream', 'Register refused while a frame is pending elsewhere', wit)
            return False
        return True
    finally:
        if fresh is not None:
            fresh.close()


def trunc_trial(ctx, sim, second, rng, reqs, frames_of, t, chunk_mode, register_cut=None, probe=True):
    """deliver Register fully (or cut at register_cut), then stream[:t] in a chunking, then EOF"""
    from vlib import refcodec as rc, arraymodel, simcheck, simdrv
    reset_tags(sim)
    model = arraymodel.Model(CFG)
    base_conns = sim.connections()
    sock = socket.create_connection(sim.address, timeout=5)
    sock.setsockopt(socket.IPPROTO_TCP, socket.TCP_NODELAY, 1)
    wit = {'requests': reqs, 't': t, 'chunk_mode': chunk_mode, 'register_cut': register_cut}
    complete = []
    try:
        reg = rc.register_frame(b'TRUNCREG')
        if register_cut is not None:
            sock.sendall(reg[:register_cut])
            stream, frames = b'', []
            ctx.count('trunc:register-frame')
        else:
            sock.sendall(reg)
            buf = b''
            while len(buf) < 28:
                chunk = sock.recv(4096)
                if not chunk:
                    ctx.violation('register-not-answered', 'no Register reply', wit)
                    return
                buf += chunk
            session = rc.dec_header(buf)['session_handle']
            frames = frames_of(session)
            stream = b''.join(frames)[:t]
            # chunking of the prefix
            if chunk_mode == 'bytewise' and len(stream) <= 120:
                chunks = [stream[i:i + 1] for i in range(len(stream))]
            elif chunk_mode == 'two' and len(stream) > 1:
                cut = rng.randrange(1, len(stream))
                chunks = [stream[:cut], stream[cut:]]
            else:
                chunks = [stream] if stream else []
            try:
                for c in chunks:
                    sock.sendall(c)
                    if len(chunks) > 1:
                        time.sleep(0.001)
            except OSError as exc:
                # the stream is a prefix of a valid request stream: the simulator has no reason to end the connection while it arrives
                ctx.violation('connection-dropped-during-valid-stream', 'the simulator closed the connection while a valid request stream was being delivered (%s, %d chunks): %r' % (
                    chunk_mode, len(chunks), exc), wit)
                return
        buf = b''
        # while the unfinished frame is pending (before EOF): other sessions and the listener keep working
        pending = (0 < register_cut < 28) if register_cut is not None else pending_frame(frames, t)
        # (only every second trial: the others end the stream at once, with end-of-stream already pending behind the bytes in flight)
        if pending and probe and next(_PROBE_TURN) % 2 == 0:
            if register_cut is None:
                # first take the replies of the wholly delivered frames, so the model and the simulator agree on what has been applied
                want_n, pos = 0, 0
                for f in frames:
                    pos += len(f)
                    want_n += pos <= t
                sock.settimeout(20)
                try:
                    while len(rc.split_frames(buf)[0]) < want_n:
                        chunk = sock.recv(65536)
                        if not chunk:
                            break
                        buf += chunk
                except socket.timeout:
                    pass
                for k in range(min(want_n, len(rc.split_frames(buf)[0]))):
                    model.apply(reqs[k])
            ok = probe_while_pending(ctx, sim, second, sock, model, wit)
            if register_cut is None:
                model = arraymodel.Model(CFG)       # replayed in full below, against the replies
            if not ok:
                return
        try:
            sock.shutdown(socket.SHUT_WR)
        except OSError:
            pass
        # collect replies until the server closes
        sock.settimeout(20)         # a watchdog for "never", not a performance requirement
        closed = False
        try:
            while True:
                chunk = sock.recv(65536)
                if not chunk:
                    closed = True
                    break
                buf += chunk
        except socket.timeout:
            pass
        if not closed:
            ctx.inconclusive_because('server did not close a connection within 20 s of EOF (wall-clock guard)')
            return
        replies, rest = rc.split_frames(buf)
        if register_cut is not None:
            if replies or rest:
                ctx.violation('reply-for-unfinished-frame', 'truncated Register frame (%d of 28 bytes) was answered' % register_cut, wit)
                return
        else:
            pos, ncomplete = 0, 0
            for f in frames:
                pos += len(f)
                if pos <= t:
                    ncomplete += 1
            ctx.count('monitor:reply-count')
            if rest or len(replies) != ncomplete:
                key = 'reply-for-unfinished-frame' if len(replies) > ncomplete or rest else 'complete-frame-not-answered'
                ctx.violation(key, 'stream cut at %d of %d: %d frames wholly delivered, %d replies (+%d stray bytes)' % (t, len(b''.join(frames)), ncomplete, len(replies), len(rest)), wit)
                return
            for k in range(ncomplete):
                want = model.apply(reqs[k])
                fr = rc.dec_frame(replies[k])
                mm = ['encapsulation status %d' % fr['status']] if fr['status'] else simcheck.reply_mismatch(rc.dec_reply(fr['cip']), want)
                if mm:
                    ctx.violation('reply-of-complete-frame-wrong', 'frame %d of a stream cut at %d: %s' % (k, t, '; '.join(mm[:2])), wit)
                    return
            # where does the cut fall?
            pos = 0
            for f in frames:
                if pos < t < pos + len(f):
                    ctx.count('trunc:inside-header' if t - pos < 24 else 'trunc:inside-payload')
                    if b'\x4d' in f[40:60] or b'\x53' in f[40:60]:
                        ctx.count('trunc:inside-write-frame')
                if t == pos + len(f) or t == pos:
                    ctx.count('trunc:on-frame-boundary')
                pos += len(f)
        # state: only complete frames may have had an effect
        ctx.count('monitor:state-equals-complete-frames-only')
        sm = simcheck.state_mismatch(sim.state(), model, CFG)
        if sm:
            ctx.violation('incomplete-frame-had-an-effect', 'stream cut at %d: %s' % (t, '; '.join(sm[:3])), wit)
            return
        # other sessions and the listener
        if not read_everything(second, model, ctx, wit, 'long-lived second session'):
            return
        ctx.count('monitor:second-session-alive')
        try:
            fresh = simdrv.RawClient(sim.address)
        except OSError as exc:
            ctx.violation('other-session-broken-by-truncated-stream', 'no new connection is accepted after a truncated stream elsewhere: %r' % (exc,), wit)
            return
        try:
            try:
                fresh.register()
            except RuntimeError as exc:
                ctx.violation('other-session-broken-by-truncated-stream', 'a new session is not opened after a truncated stream elsewhere: %r' % (exc,), wit)
                return
            if not read_everything(fresh, model, ctx, wit, 'fresh session'):
                return
        finally:
            fresh.close()
        ctx.count('monitor:fresh-session')
        # connection table back to its baseline (the long-lived session is part of the baseline)
        for _ in range(1000):      # 10 s: a watchdog for "never", not a performance requirement
            if sim.connections() <= base_conns:
                break
            time.sleep(0.01)
        ctx.count('monitor:connection-table-baseline')
        if sim.connections() > base_conns:
            ctx.violation('connection-table-leak', 'connection table has %d entries, baseline %d' % (sim.connections(), base_conns), wit)
            return
        ctx.count('trunc:trials')
        ctx.case(('trunc', repr(reqs)[:300], t, chunk_mode, register_cut), nontrivial=True)
    finally:
        sock.close()


def server_level(ctx, rng):
    from vlib import simdrv, reqgen, refcodec as rc
    sim = simdrv.TcpSim(reqgen.argv_of(CFG))
    second = simdrv.RawClient(sim.address)
    second.register()
    quick = ctx.tier == 'quick'
    try:
        rounds = 0
        while not ctx.expired():
            rounds += 1
            if quick and rounds > 1:
                break
            import random as _random
            reqs = request_list(_random.Random(ctx.seed * 7919 + rounds))     # the same stream in every shard: the offsets are partitioned, not the streams

            def frames_of(session, reqs=reqs):
                return [rc.rr_frame(rc.enc_unconnected_send(rc.enc_request(r)), session, struct.pack('<Q', 1000 + i)) for i, r in enumerate(reqs)]
            frames = frames_of(1)
            total = sum(len(f) for f in frames)
            if quick:
                offs = set()
                pos = 0
                for f in frames:
                    for d in (-6, -5, -4, -3, -2, -1, 0, 1, 2, 4, 8, 12, 20, 23, 24, 25, 30):
                        offs.add(pos + d)
                    pos += len(f)
                offs.update([pos - 6, pos - 5, pos - 4, pos - 3, pos - 2, pos - 1, pos])
                # every offset inside the last write frame
                last_w = max(i for i, r in enumerate(reqs) if 'write_tag' in r)
                start = sum(len(f) for f in frames[:last_w])
                offs.update(range(start, start + len(frames[last_w]) + 1))
                offs.update(rng.randrange(0, total + 1) for _ in range(10))
                offs = sorted(o for o in offs if 0 <= o <= total)
            else:
                offs = list(range(0, total + 1))
            offs = [o for i, o in enumerate(offs) if i % ctx.nshards == ctx.shard]
            for t in offs:
                if ctx.expired():
                    break
                trunc_trial(ctx, sim, second, rng, reqs, frames_of, t, rng.choice(['whole', 'two', 'bytewise']))
            for cut in ([1, 12, 23, 24, 27] if quick else range(0, 28)):
                if cut % ctx.nshards == ctx.shard % 4 or not quick:
                    trunc_trial(ctx, sim, second, rng, reqs, frames_of, 0, 'whole', register_cut=cut)
            # a long stream (many complete frames in flight at once) ending exactly on, just before and just after the sizes in which
            # the server reads its socket: the end-of-stream then arrives while complete, still unprocessed frames are buffered
            long_reqs = []
            for j in range(150):
                long_reqs.append({'path': {'segment': [{'symbolic': 'W'}, {'element': j % 8}]}, 'write_tag': {'type': 0xC4, 'elements': 1, 'data': [100000 + j]}} if j % 3 else
                                 {'path': {'segment': [{'symbolic': 'W'}]}, 'read_tag': {'elements': 8}})

            def long_frames(session, reqs=long_reqs):
                return [rc.rr_frame(rc.enc_unconnected_send(rc.enc_request(r)), session, struct.pack('<Q', 5000 + i)) for i, r in enumerate(reqs)]
            ltotal = sum(len(f) for f in long_frames(1))
            lcuts = [c for c in (4095, 4096, 4097, 8191, 8192, 8193, 2048, 12288, ltotal) if c <= ltotal]
            for j, t in enumerate(lcuts):
                if j % ctx.nshards == ctx.shard % 4 or not quick:
                    trunc_trial(ctx, sim, second, rng, long_reqs, long_frames, t, 'whole', probe=False)
                    ctx.count('trunc:long-stream')
            ctx.sample({'truncation_stream_bytes': total, 'offsets_tried_this_shard': len(offs), 'requests': [sorted(r)[-1] for r in reqs]})
    finally:
        second.close()
        sim.stop()


def run(ctx):
    rng = ctx.rng
    soft = SOFT[ctx.tier]
    parser_level(ctx, rng, soft * 0.25)
    client_level(ctx, rng, 30 if ctx.tier == 'quick' else 600)
    server_level(ctx, rng)


def replay(ctx, witness):
    ctx.inconclusive_because('re-run by seed')

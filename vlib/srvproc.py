"""Launcher for a simulator in its own process with a perturbed scheduler (no change to the repository):

    python -m vlib.srvproc --switch 1e-5 [--yield-p 0.02] -- <enip.main argv...>

prints  ADDRESS <host> <port>  when listening, runs until stdin is closed, then prints one line
STATS {json}  with what the perturbation hooks observed (lock contentions on the shared parsers, yields injected).
"""
from __future__ import annotations
import json, os, random, sys, threading, time


def main():
    args = sys.argv[1:]
    switch, yield_p = 1e-5, 0.0
    while args and args[0] != '--':
        if args[0] == '--switch':
            switch = float(args[1])
            args = args[2:]
        elif args[0] == '--yield-p':
            yield_p = float(args[1])
            args = args[2:]
        else:
            raise SystemExit('unknown option %r' % args[0])
    argv = args[1:]
    sys.path.insert(0, os.path.dirname(os.path.dirname(os.path.abspath(__file__))))
    from vlib import env
    env.setup()
    import cpppo
    from cpppo import automata
    from cpppo.server.enip import main as enip_main
    sys.setswitchinterval(switch)
    stats = {'dfa_enter': 0, 'dfa_contended': 0, 'yields': 0, 'post_closures': 0}
    lock = threading.Lock()

    # observe contention on the shared (class-level) parsers: was the lock held when a thread arrived?
    orig_enter = automata.dfa_base.__enter__

    def counting_enter(self):
        held = self.lock.locked()
        with lock:
            stats['dfa_enter'] += 1
            if held:
                stats['dfa_contended'] += 1
        return orig_enter(self)
    automata.dfa_base.__enter__ = counting_enter
    orig_post = automata.dfa_post.post_process_closure

    def counting_post(self, closure):
        with lock:
            stats['post_closures'] += 1
        return orig_post(self, closure)
    automata.dfa_post.post_process_closure = counting_post

    if yield_p > 0 and hasattr(sys, 'monitoring'):
        # source-free yield points: at the start of (a random subset of) lines in the request-handling modules
        mon = sys.monitoring
        TOOL = 4
        mon.use_tool_id(TOOL, 'cpppo-verif-yield')
        rnd = random.Random(os.getpid())
        names = ('/cpppo/automata.py', '/cpppo/server/enip/device.py', '/cpppo/server/enip/logix.py', '/cpppo/server/enip/ucmm.py', '/cpppo/server/enip/main.py',
                 '/cpppo/server/enip/parser.py')

        # Where to widen windows.  CORE: the code that reads and writes the state all sessions share (the tag store, the per-thread
        # closure lists of the shared parser, one-time object creation): a quarter of its lines sleep for real (0.5 ms).  HANDLERS: the
        # request handlers around it, between whose statements other sessions may run: one line in twenty.  Everything else (the
        # parsing machinery, which works on per-session state) is left alone -- its lines are disabled for this tool, so it runs at
        # full speed and the windows above stay large relative to the length of a request; pre-emption there still comes from the
        # tiny switch interval.  (Instrumenting every line made a request take ~0.5 s, and a 1 ms window was never hit.)
        core = ('Attribute.__setitem__', 'Attribute.__getitem__', 'dfa_post.__exit__', 'dfa_post.post_process_closure')
        handlers = ('Logix.request', 'Logix.reply_elements', 'Message_Router.request', 'state_multiple_service.', 'UCMM.request', 'Connection_Manager.request',
                    'Connection_Manager.forward_open', 'Connection_Manager.forward_close', 'Object.request', 'setup', 'setup_tag', 'enip_srv_tcp', 'stats_for')

        # ENCODERS: the element-by-element encoders that turn what a read took from the tag store into reply bytes; a window between
        # two elements shows whether they work on a private snapshot (one line in twenty sleeps 2 ms).
        encoders = ('TYPE.produce', 'BOOL.produce', 'typed_data.produce', 'Attribute.produce')

        def on_line(code, line):
            q = code.co_qualname
            if not code.co_filename.endswith(names) or not q.startswith(core + handlers + encoders):
                return mon.DISABLE
            r = rnd.random()
            if q.startswith(encoders):
                if r < 0.05:
                    stats['yields'] += 1
                    stats['encoder_yields'] = stats.get('encoder_yields', 0) + 1
                    time.sleep(0.002)
            elif q.startswith(core):
                if r < 0.25:
                    stats['yields'] += 1
                    stats['long_yields'] = stats.get('long_yields', 0) + 1
                    time.sleep(0.002)
            elif r < 0.004:
                stats['yields'] += 1
                stats['long_yields'] = stats.get('long_yields', 0) + 1
                time.sleep(0.0005)
            elif r < 0.05:
                stats['yields'] += 1
                time.sleep(0)
        mon.register_callback(TOOL, mon.events.LINE, on_line)
        mon.set_events(TOOL, mon.events.LINE)

    control = cpppo.apidict(2.0, {'done': False})
    err = []

    def target():
        try:
            enip_main.main(argv=['-a', 'localhost:0', '--no-config'] + argv, server={'control': control})
        except BaseException as exc:      # noqa
            err.append(repr(exc))
    th = threading.Thread(target=target, daemon=True)
    th.start()
    t0 = time.monotonic()
    while time.monotonic() - t0 < 30:
        a = dict.get(control, 'address')
        if a:
            print('ADDRESS %s %d' % (a[0], a[1]), flush=True)
            break
        if err or not th.is_alive():
            print('FAILED %s' % err, flush=True)
            return 1
        time.sleep(0.01)
    sys.stdin.read()                    # until the harness closes our stdin
    dict.__setitem__(control, 'done', True)
    th.join(5)
    print('STATS ' + json.dumps(stats), flush=True)
    return 0


if __name__ == '__main__':
    sys.exit(main())

"""C11 -- regular-expression machines accept exactly the expression's language.

Reference-model monitor: expressions are generated as ASTs, printed for cpppo.regex / regex_bytes,
and judged against an own Thompson-NFA -> DFA with live-state analysis (vlib/rx.py); the oracle is
itself cross-checked against Python's re.fullmatch on every prefix of every input.
"""
from __future__ import annotations
import re

PROPERTY = 'C11'
META = {
    'level': 'exploration',
    'technique': 'reference-model runtime monitor: every run of the real regex machines compared with an independent NFA->DFA oracle (longest live prefix, acceptance, stored input, NonTerminal), oracle cross-checked against re.fullmatch',
    'text': 'A deterministic list of bounded repetitions of 128..400 steps whose first impossible symbol comes late (machines of several hundred states) with inputs walked out of the oracle\'s DFA. Expressions over control bytes (\\x00, \\x01, \\x02, \\x7f) are run as str and bytes machines (byte values coincide with small ints and booleans). All expression ASTs up to a size bound over {a,b} (literals, classes, negated classes, ".", alternation, grouping, * + ? {m,n}) are printed and handed to the real '
            'cpppo.regex; every string over {a,b,c} up to a length bound is run through the machine (whole, byte-at-a-time and in two-way chunkings through a chainable source) '
            'and the consumed prefix (source.sent), the stored input, machine.terminal and the NonTerminal failure are compared with the oracle. The same is done for '
            'regex_bytes with ASCII expressions and with multi-byte literals (UTF-8 byte language incl. truncated encodings), and for larger seeded expressions. '
            'Exhaustive inside the stated bounds; held-on-observed beyond.',
    'note': 'Trusts vlib/rx.py (cross-checked on every case against re.fullmatch). regex_bytes expressions the library refuses at construction (documented multi-byte fan-out '
            'restriction) are counted as unsupported; wildcard/negated classes mixed with multi-byte symbols are explored but excluded from the verdict.',
}
LEVEL = META['level']
RULE = ('a case = one (expression, input string, chunking) run of a real machine; expressions enumerated completely up to the size bound and inputs up to the length bound, '
        'then seeded larger ones; distinct by (expression text, input, chunking); non-trivial = the oracle comparison was evaluated (always) and the input is non-empty')
ASSUMPTIONS = ['greenery syntax == re syntax for the generated constructs (checked: oracle vs re.fullmatch on every prefix)',
               "'.' and negated classes match any symbol, including ones outside the expression's alphabet"]
REQUIRED = ['expressions:non-greedy-wrapper', 'expressions:hundreds-of-states', 'expressions:control-symbols', 'str:runs', 'str:accepted', 'str:rejected-nonterminal', 'str:stopped-before-end-accepting', 'str:input-exhausted-not-accepting',
            'bytes-ascii:runs', 'bytes-multibyte:runs', 'oracle:re-crosschecks', 'chunking:two-way', 'chunking:bytewise', 'bytes-multibyte:truncated-encoding']
TIMEOUT = {'quick': 300, 'thorough': 2400}
SOFT = {'quick': 40, 'thorough': 900}


def shards(tier):
    return 4 if tier == 'quick' else 16


class SlowConstruction(BaseException):       # not an Exception: third-party code between the alarm and us must not swallow it
    pass


def _alarm(*a):
    raise SlowConstruction()


def construct(factory, text, seconds=1):
    """greenery's lego->fsm conversion (third party) can take minutes on some nested repetitions; such
    expressions are counted as skipped, never judged."""
    import signal
    old = signal.signal(signal.SIGALRM, _alarm)
    signal.alarm(seconds)
    try:
        return factory(initial=text, terminal=True, context='m')
    finally:
        signal.alarm(0)
        signal.signal(signal.SIGALRM, old)


class Mon:
    def __init__(self, ctx):
        import cpppo
        from vlib import rx
        self.ctx, self.cpppo, self.rx = ctx, cpppo, rx
        self.re_cache = {}

    def run_machine(self, machine, chunks, bytes_mode):
        cpppo = self.cpppo
        source = cpppo.chainable()
        data = cpppo.dotdict()
        chunks = list(chunks)
        nonterminal = None
        steps = 0
        with machine:
            try:
                for mch, sta in machine.run(source=source, data=data):
                    steps += 1
                    if steps > 100000:
                        raise RuntimeError('no termination')
                    if sta is not None or source.peek() is not None:
                        continue
                    if not chunks:
                        break
                    source.chain(chunks.pop(0))
            except cpppo.NonTerminal as exc:
                nonterminal = exc
            terminal = machine.terminal
        stored = data.get('m.input')
        if stored is not None:
            stored = stored.tobytes() if bytes_mode else stored.tounicode()
        return source.sent, stored, terminal, nonterminal

    def greenery_disagrees(self, text, w):
        """Attribution only (used after a violation): does the pinned third-party greenery library itself, before cpppo
        translates anything, interpret the expression differently from standard semantics on some prefix of w?"""
        import signal
        cache = self.__dict__.setdefault('_gd_cache', {})
        if (text, w) in cache:
            return cache[(text, w)]
        old_handler = signal.signal(signal.SIGALRM, _alarm)
        signal.alarm(2)
        try:
            r = self._greenery_disagrees(text, w)
        except SlowConstruction:
            r = False
        finally:
            signal.alarm(0)
            signal.signal(signal.SIGALRM, old_handler)
        cache[(text, w)] = r
        return r

    def _greenery_disagrees(self, text, w):
        try:
            import greenery.lego
            f = greenery.lego.parse(text).fsm()
            cre = re.compile(text, re.DOTALL)
            fullmatch = lambda s_: cre.fullmatch(s_) is not None        # noqa: E731
            dfa = getattr(self, 'cur_dfa', None)
            if getattr(self, 'cur_depth', 0) >= 2 and dfa is not None:
                # nested repetitions: `re` may take exponential time and cannot be interrupted (see crosscheck); standard semantics
                # are then taken from the harness' own automaton, itself cross-checked against `re` on the short prefixes
                def fullmatch(s_):
                    S = dfa.start
                    for c_ in s_:
                        S = dfa.step(S, c_)
                    return S in dfa.accept
            if isinstance(w, bytes):
                for cut in range(len(w), -1, -1):       # longest prefix that is valid UTF-8
                    try:
                        w = w[:cut].decode('utf-8')
                        break
                    except UnicodeDecodeError:
                        continue
            # shortest word accepted from each state of greenery's own fsm (None: a dead state), by backward breadth-first search
            def pick(k, row):
                if isinstance(k, str):
                    return k
                return next(c for c in 'zqjxZQ~_0' if c not in row)          # a symbol standing for "anything else"
            comp = {q: '' for q in f.finals}
            changed = True
            while changed:
                changed = False
                for q, row in f.map.items():
                    for k, t in row.items():
                        if t in comp:
                            cand = pick(k, row) + comp[t]
                            if q not in comp or len(cand) < len(comp[q]):
                                comp[q] = cand
                                changed = True
            st = f.initial
            for i in range(len(w) + 1):
                if (st in f.finals) != fullmatch(w[:i]):
                    return True
                # a concrete word that greenery's fsm accepts and the standard semantics (re) rejects: the prefix is live for
                # greenery only.  Demonstrated by the word itself, independent of the harness' own oracle.
                if st in comp and not fullmatch(w[:i] + comp[st]):
                    return True
                if i < len(w):
                    row = f.map[st]
                    c = w[i]
                    key = c if c in row else next((k for k in row if not isinstance(k, str)), None)
                    if key not in row:
                        return False
                    st = row[key]
        except Exception:
            return False
        return False

    def judge(self, kind, text, machine, w, chunks, label, P, accepted, bytes_mode, judged=True):
        ctx = self.ctx
        real_violation = ctx.violation

        def attributed(key, what, wit):
            if kind in ('str', 'bytes-ascii', 'bytes-multibyte', 'str-nongreedy', 'bytes-nongreedy') and self.greenery_disagrees(text, w):
                key = 'greenery-misparses-expression'
            real_violation(key, what, wit)
        viol = attributed
        wit = {'kind': kind, 'regex': text, 'input': w, 'chunks': [len(c) for c in chunks], 'expected_prefix': P, 'expected_accept': accepted}
        try:
            sent, stored, terminal, nonterminal = self.run_machine(machine, chunks, bytes_mode)
        except Exception as exc:
            if judged:
                viol('machine-raises', '%s %r on %r (%s) raised %r' % (kind, text, w, label, exc), wit)
            return
        ctx.case((kind, text, w, label, tuple(len(c) for c in chunks)), nontrivial=len(w) > 0)
        ctx.count(kind + ':runs')
        ctx.count('chunking:' + label)
        if not judged:
            same = (sent == P and bool(terminal) == accepted)
            ctx.count(kind + (':unjudged-same' if same else ':unjudged-different'))
            return
        wit.update(sent=sent, stored=stored, terminal=terminal, nonterminal=repr(nonterminal))
        pre = w[:P]
        if sent != P:
            key = 'consumes-beyond-language' if sent > P else 'stops-short-of-longest-prefix'
            return viol(key, '%s %r on %r (%s): consumed %d symbols, longest extendable prefix is %d (%r)' % (kind, text, w, label, sent, P, pre), wit)
        if (stored or type(pre)()) != pre:
            return viol('stored-input-differs', '%s %r on %r (%s): stored %r, consumed prefix %r' % (kind, text, w, label, stored, pre), wit)
        if bool(terminal) != accepted:
            key = 'accepts-non-sentence' if terminal else 'rejects-sentence'
            return viol(key, '%s %r on %r (%s): terminal=%r but prefix %r %s a sentence' % (
                kind, text, w, label, terminal, pre, 'is' if accepted else 'is not (or is empty)'), wit)
        if not accepted and P < len(w) and nonterminal is None:
            return viol('dead-input-not-rejected', '%s %r on %r (%s): input cannot continue a sentence, machine not accepting, but no NonTerminal raised' % (
                kind, text, w, label), wit)
        if accepted and nonterminal is not None:
            return viol('rejects-sentence', '%s %r on %r (%s): NonTerminal raised although %r is a sentence' % (kind, text, w, label, pre), wit)
        if accepted:
            ctx.count(kind + ':accepted')
            if P < len(w):
                ctx.count(kind + ':stopped-before-end-accepting')
        elif nonterminal is not None:
            ctx.count(kind + ':rejected-nonterminal')
        else:
            ctx.count(kind + ':input-exhausted-not-accepting')

    def crosscheck(self, text, dfa, w, member, depth=0):
        """the oracle's membership for every prefix vs Python's re.  `re` backtracks, cannot be interrupted, and takes exponential time
        on nested repetitions: for those only the prefixes of up to 5 symbols are cross-checked (two thorough-tier shards once sat
        in re.fullmatch until the watchdog fired) -- the cross-check guards the oracle, it is not the verdict."""
        ctx = self.ctx
        cre = self.re_cache.get(text)
        if cre is None:
            cre = self.re_cache[text] = re.compile(text, re.DOTALL)
        for i, m in enumerate(member):
            if depth >= 2 and i > 5:
                ctx.count('oracle:re-crosscheck-skipped-nested-repetition')
                break
            ctx.count('oracle:re-crosschecks')
            if (cre.fullmatch(w[:i]) is not None) != m:
                ctx.inconclusive_because('oracle disagrees with re.fullmatch on %r / %r' % (text, w[:i]))
                return False
        return True

    def chunkings(self, w, level):
        yield 'whole', [w] if w else []
        if level >= 1 and len(w) > 1:
            yield 'bytewise', [w[i:i + 1] for i in range(len(w))]
        if level >= 2:
            for cut in range(1, len(w)):
                yield 'two-way', [w[:cut], w[cut:]]

    def expression(self, ast, inputs, chunk_level):
        cpppo, rx, ctx = self.cpppo, self.rx, self.ctx
        text = rx.to_text(ast)
        self.cur_depth = rx.quantifier_depth(ast)
        try:
            re.compile(text)
        except re.error:
            ctx.count('skipped:not-re-syntax')
            return
        try:
            dfa = rx.DFA(ast)
        except rx.TooBig:
            ctx.count('skipped:oracle-automaton-too-big')
            return
        self.cur_dfa = dfa
        try:
            m_str = construct(cpppo.regex, text)
            m_byt = construct(cpppo.regex_bytes, text)
        except SlowConstruction:
            ctx.count('skipped:greenery-construction-slow')
            return
        except Exception as exc:
            ctx.violation('construction-raises', 'regex(%r) construction raised %r' % (text, exc), {'regex': text})
            return
        ctx.count('expressions')
        m_ng = m_ngb = None
        self.n_expr = getattr(self, 'n_expr', 0) + 1
        if self.n_expr % 3 == 0:
            try:
                m_ng = construct(lambda **kw: cpppo.regex(greedy=False, **kw), text)
                m_ngb = construct(lambda **kw: cpppo.regex_bytes(greedy=False, **kw), text)
                ctx.count('expressions:non-greedy-wrapper')
            except SlowConstruction:
                m_ng = m_ngb = None
        for w in inputs:
            P, accepted, member = dfa.analyse(w)
            if not self.crosscheck(text, dfa, w, member, depth=rx.quantifier_depth(ast)):
                return
            for label, chunks in self.chunkings(w, chunk_level(w)):
                self.judge('str', text, m_str, w, chunks, label, P, accepted, False)
            wb = w.encode('ascii')
            for label, chunks in self.chunkings(wb, min(1, chunk_level(w))):
                self.judge('bytes-ascii', text, m_byt, wb, chunks, label, P, accepted, True)
            if m_ng is not None:
                # the wrappers' non-greedy configuration (the default of string / string_bytes): the sub-machine's states are still
                # greedy, so the outcome is the same -- whole or in chunks
                for label, chunks in self.chunkings(w, chunk_level(w)):
                    self.judge('str-nongreedy', text, m_ng, w, chunks, label, P, accepted, False)
                for label, chunks in self.chunkings(wb, chunk_level(w)):
                    self.judge('bytes-nongreedy', text, m_ngb, wb, chunks, label, P, accepted, True)
        if ctx.want_sample() and ctx.rng.random() < 0.02:
            w = inputs[len(inputs) // 2] if inputs else ''
            P, accepted, _ = dfa.analyse(w)
            ctx.sample({'regex': text, 'input': w, 'longest_live_prefix': w[:P], 'accepted': accepted})


# ---------------------------------------------------------------- multi-byte
MB = ['é', 'ж', '€', '😀']


def byte_oracle(dfa, chars, wb):
    """Longest live byte prefix and acceptance for the UTF-8 byte language of the char-level DFA."""
    encs = {c: c.encode('utf-8') for c in chars}
    S, pend = dfa.start, b''
    P, alive = 0, S in dfa.live
    acc_at = {0: S in dfa.accept}
    for i in range(len(wb)):
        if not alive:
            break
        cand = pend + wb[i:i + 1]
        nxt = None
        partial = False
        for c, e in encs.items():
            if e == cand:
                T = dfa.step(S, c)
                if T in dfa.live:
                    nxt = T
            elif e.startswith(cand):
                if dfa.step(S, c) in dfa.live:
                    partial = True
        if nxt is not None:
            S, pend = nxt, b''
            P = i + 1
            acc_at[P] = S in dfa.accept
        elif partial:
            pend = cand
            P = i + 1
            acc_at[P] = False
        else:
            alive = False
    accepted = P >= 1 and acc_at.get(P, False)
    return P, accepted


def large_machines(ctx, mon, rng):
    """Bounded repetitions that make machines of several hundred states (state labels beyond anything small), above all ones whose
    first impossible symbol comes late, so that the dead state is among the last to be numbered.  Deterministic list, spread over the
    shards; inputs are walked out of the oracle's own DFA: a sentence, the sentence continued, cut short, and spoilt at and around
    the end of the repetition."""
    from vlib import rx
    any_, a, b, c = ('any',), ('lit', 'a'), ('lit', 'b'), ('lit', 'c')
    reps = [257] if ctx.tier == 'quick' else [128, 255, 256, 257, 258, 300, 400]
    asts = []
    for n in reps:
        asts += [('cat', ('rep', any_, n, n), a),
                 ('cat', ('cat', any_, ('rep', any_, n - 1, n - 1)), ('set', 'ab')),
                 ('cat', ('rep', ('nset', 'b'), n, n), ('cat', a, ('opt', c))),
                 ('cat', ('rep', ('cat', any_, ('nset', 'b')), n // 2, n // 2), ('cat', any_, b))]       # (no ambiguous bodies: `re`, used to cross-check the oracle, backtracks exponentially on them)
    if ctx.tier != 'quick':
        asts += [('rep', a, 300, 300), ('cat', ('rep', ('set', 'ab'), 256, 260), ('opt', c)), ('cat', ('rep', ('cat', a, b), 130, 130), c)]
    for k, ast in enumerate(asts):
        if k % ctx.nshards != ctx.shard:
            continue
        text = rx.to_text(ast)
        dfa = rx.DFA(ast)
        try:
            m_str = construct(mon.cpppo.regex, text, seconds=120)
            m_byt = construct(mon.cpppo.regex_bytes, text, seconds=120)
        except SlowConstruction:
            ctx.count('skipped:greenery-construction-slow')
            continue
        except Exception as exc:
            ctx.violation('construction-raises', 'regex(%r) construction raised %r' % (text, exc), {'regex': text})
            continue
        ctx.count('expressions:hundreds-of-states')
        # a sentence: walk live states, preferring to go on, until an accepting state without live continuation (or a coin says stop)
        sent, S = '', dfa.start
        for _ in range(2000):
            nxt = [ch for ch in 'abcz' if dfa.step(S, ch) in dfa.live]
            if S in dfa.accept and (not nxt or rng.random() < 0.02):
                break
            if not nxt:
                break
            ch = rng.choice(nxt)
            sent += ch
            S = dfa.step(S, ch)
        L = len(sent)
        spoil = lambda i, ch: sent[:i] + ch + sent[i + 1:]
        inputs = [sent, sent + 'zz', sent + 'a', sent[:-1], sent[:-1] + 'z' + 'zz', sent[:-1] + 'b' + 'zz', sent[:-1] + 'c', sent[:-2], sent[:L // 2],
                  spoil(L // 2, 'b'), spoil(L - 2, 'b') + 'zz', spoil(0, 'b'), spoil(0, 'z'), spoil(255, 'b') if L > 256 else sent, spoil(256, 'z') if L > 257 else sent]
        for w in inputs:
            P, accepted, member = dfa.analyse(w)
            if not mon.crosscheck(text, dfa, w, member):
                return
            for label, chunks in (('whole', [w]), ('seven-symbol-blocks', [w[i:i + 7] for i in range(0, len(w), 7)]), ('two-way', [w[:L - 1], w[L - 1:]])):
                chunks = [ch for ch in chunks if ch]
                mon.judge('str', text, m_str, w, chunks, label, P, accepted, False)
                wb = w.encode('ascii')
                mon.judge('bytes-ascii', text, m_byt, wb, [ch.encode('ascii') for ch in chunks], label, P, accepted, True)
            ctx.count('large:inputs')


def run(ctx):
    from vlib import rx
    mon = Mon(ctx)
    rng = ctx.rng
    quick = ctx.tier == 'quick'
    large_machines(ctx, mon, rng)
    max_size = 3 if quick else 4
    max_len = 4 if quick else 6
    strings = list(rx.all_strings('abc', max_len))
    ctx.exhaustive = True
    n = 0
    for size in range(1, max_size + 1):
        for ast in rx.enumerate_asts(size):
            n += 1
            if n % ctx.nshards != ctx.shard:
                continue
            if ctx.expired():
                ctx.exhaustive = False
                ctx.notes.append('enumeration stopped at the soft budget (size %d)' % size)
                break
            lvl = (lambda w: 2) if size <= 2 else (lambda w: 2 if len(w) <= 3 else (1 if len(w) <= 4 else 0))
            mon.expression(ast, strings, lvl)
    ctx.count('expressions:enumerated', 0)
    # seeded larger expressions, longer inputs
    rounds = 40 if quick else 100000
    for i in range(rounds):
        if ctx.time_left() < SOFT[ctx.tier] * 0.25:
            break
        ast = rx.random_ast(rng, rng.choice([5, 5, 6, 6, 7, 8]), rx.ATOMS_AB + [('lit', 'c'), ('set', 'bc'), ('lit', '.'), ('lit', '*')])
        if rx.postfixed_twice(ast) or rx.expanded_size(ast) > 60:
            continue
        alpha = 'abc.*d'
        inputs = [''.join(rng.choice(alpha) for _ in range(rng.randrange(0, 12))) for _ in range(25)]
        mon.expression(ast, inputs, lambda w: 2 if len(w) <= 6 else 1)
    # symbols whose byte values coincide with small integers and booleans (0, 1), and other control characters: for a machine over
    # bytes the symbols are ints, so anything in the framework that uses True/False/None/-1 as a placeholder key is one hash away
    ctl_atoms = [('lit', '\x01'), ('lit', '\x00'), ('lit', 'a'), ('set', '\x01a'), ('nset', '\x01'), ('nset', '\x01a'), ('nset', '\x00\x01'), ('nset', '\x00\x01\x02'),
                 ('nset', 'a'), ('any',), ('lit', '\x7f'), ('nset', '\x02\x7f')]
    for i in range(40 if quick else 20000):
        if ctx.time_left() < SOFT[ctx.tier] * 0.2:
            break
        ast = rx.random_ast(rng, rng.choice([1, 2, 3, 4, 5]), ctl_atoms)
        if rx.postfixed_twice(ast) or rx.expanded_size(ast) > 60:
            continue
        inputs = [''.join(rng.choice('\x00\x01\x02a\x7fb') for _ in range(rng.randrange(0, 8))) for _ in range(20)]
        mon.expression(ast, inputs, lambda w: 2 if len(w) <= 5 else 1)
        ctx.count('expressions:control-symbols')
    # multi-byte literal expressions over bytes
    mb_atoms = [('lit', 'a'), ('lit', 'é'), ('lit', 'ж'), ('lit', '€'), ('lit', '😀'),
                # symbols that Unicode normalisation, case folding or compatibility mapping would replace by another code point
                ('lit', '\u2126'), ('lit', '\u212a'), ('lit', '\u212b'), ('lit', '\u1f71'), ('lit', '\uf900'), ('lit', '\ufb01'), ('lit', '\u00b5'), ('lit', '\u017f')]
    rounds = 120 if quick else 100000
    for i in range(rounds):
        if ctx.expired():
            break
        atoms = [rng.choice(mb_atoms[1:])] if rng.random() < 0.8 else mb_atoms
        ast = rx.random_ast(rng, rng.choice([1, 2, 3, 4, 5, 6]), atoms)
        if rx.postfixed_twice(ast) or rx.expanded_size(ast) > 60:
            continue
        text = rx.to_text(ast)
        mon.cur_depth = rx.quantifier_depth(ast)
        chars = sorted(rx.chars_of(ast))
        try:
            dfa = rx.DFA(ast)
        except rx.TooBig:
            ctx.count('skipped:oracle-automaton-too-big')
            continue
        mon.cur_dfa = dfa
        try:
            m = construct(mon.cpppo.regex_bytes, text)
        except SlowConstruction:
            ctx.count('skipped:greenery-construction-slow')
            continue
        except AssertionError:
            ctx.count('bytes-multibyte:construction-refused')
            continue
        except Exception as exc:
            ctx.violation('construction-raises', 'regex_bytes(%r) raised %r' % (text, exc), {'regex': text})
            continue
        for _ in range(12):
            s = ''.join(rng.choice(chars + ['x', 'é', '€']) for _ in range(rng.randrange(0, 6)))
            wb = s.encode('utf-8')
            if wb and rng.random() < 0.35:
                cut = rng.randrange(1, len(wb) + 1)
                wb = wb[:cut] + (b'' if rng.random() < 0.5 else bytes([rng.choice([0x80, 0xa9, 0x41, 0xc3, 0xe2])]))
                ctx.count('bytes-multibyte:truncated-encoding')
            P, accepted = byte_oracle(dfa, chars, wb)
            for label, chunks in mon.chunkings(wb, 2 if len(wb) <= 8 else 1):
                mon.judge('bytes-multibyte', text, m, wb, chunks, label, P, accepted, True)
        if ctx.want_sample() and i % 17 == 3:
            ctx.sample({'regex_bytes': text, 'input': wb, 'longest_live_prefix_len': P, 'accepted': accepted})
    # wildcard / negation mixed with multi-byte symbols: explored, not judged
    for i in range(30 if quick else 3000):
        if ctx.expired():
            break
        ast = rx.random_ast(rng, rng.choice([2, 3, 4]), mb_atoms + [('any',), ('nset', 'a')])
        if rx.postfixed_twice(ast) or not rx.has(ast, ('any', 'nset')) or rx.expanded_size(ast) > 60:
            continue
        text = rx.to_text(ast)
        try:
            m = construct(mon.cpppo.regex_bytes, text)
        except (Exception, SlowConstruction):
            ctx.count('bytes-wild-multibyte:construction-refused')
            continue
        wb = ''.join(rng.choice(['a', 'é', '€', 'x']) for _ in range(rng.randrange(1, 5))).encode('utf-8')
        mon.judge('bytes-wild-multibyte', text, m, wb, [wb], 'whole', -1, False, True, judged=False)


def replay(ctx, witness):
    mon = Mon(ctx)
    text, w = witness['regex'], witness['input']
    kind = witness.get('kind', 'str')
    bytes_mode = kind != 'str'
    m = (mon.cpppo.regex_bytes if bytes_mode else mon.cpppo.regex)(initial=text, terminal=True, context='m')
    chunks, pos = [], 0
    for s in witness['chunks']:
        chunks.append(w[pos:pos + s])
        pos += s
    mon.judge(kind, text, m, w, chunks, 'replay', witness['expected_prefix'], witness['expected_accept'], bytes_mode)

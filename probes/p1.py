import sys, time, threading, logging
import cpppo
from cpppo.server import enip
from cpppo.server.enip import client, logix, device, parser
from cpppo.server.enip.main import main as enip_main
from cpppo.dotdict import dotdict, apidict

ctl = apidict( 2.0, {'done': False} )
kw = dict( argv=['-a','localhost:0','--no-config','A=INT[10]','B=DINT[5]','S=SSTRING[3]','R@0x99/1/2=REAL[4]','U=UINT','L=LINT[3]'], server={'control': ctl} )
t = threading.Thread( target=enip_main, kwargs=kw, daemon=True ); t.start()
while 'address' not in ctl: time.sleep(.01)
addr = ctl['address']; print( addr )
t0=time.time()
with client.connector( host=addr[0], port=addr[1], timeout=5 ) as c:
    print("connect",time.time()-t0)
    ops = client.parse_operations( ['A[0-3]=1,2,3,4','A[0-9]','B[1]=(DINT)77','B','S[0]=(SSTRING)"hi"','S[0-2]','R[0-3]','U=(UINT)40000','U', 'A[2]=(UINT)40000', 'A[0-9]', 'A[0]'] )
    try:
      for idx,dsc,req,rpy,sts,val in c.pipeline( operations=ops, depth=1, timeout=3 ):
        print( idx, dsc, sts, val )
    except Exception as e:
      print("EXC", type(e), e)
t0=time.time()
with client.connector( host=addr[0], port=addr[1], timeout=5 ) as c:
    n=0
    for idx,dsc,req,rpy,sts,val in c.pipeline( operations=client.parse_operations(['A[0-9]']*200), depth=5, timeout=3 ):
        n+=1
    print( n, "ops", time.time()-t0 )
ctl['done']=True
t.join(3)

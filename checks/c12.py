"""C12 -- client results do not depend on pipelining depth or request bundling; operation strings.

(a) differential monitor: the same operation list is executed by the real client against the real
TCP simulator under many (depth, multiple, fragment) settings from an identical tag state; result
streams are compared with each other and with the array model.  (b) wire monitor: every bundle the
client sends is recorded (instance-level wrapper around connector.multiple) and checked for mixed
route/send paths.  (c) operation strings printed by the harness from a structured description are
parsed by parse_operations and compared; format_path/parse_path round trip.
"""
from __future__ import annotations
import json

PROPERTY = 'C12'
META = {
    'level': 'exploration',
    'technique': 'differential runtime monitor across client settings + array-model oracle; bundle composition monitor on the client instance; printer/parser round trip for operation strings and paths',
    'text': 'Text values are also composed of the value syntax\'s own characters (quote, comma, blank, tab, backslash); the typed proxy reads ask for one attribute several times declared as different types. Operation lists also hold attribute services refused with a bare status, operations with no route path next to default-routed ones, and quoted text values with backslashes, commas and doubled quotes in the operation strings. Lists of 1..80 operations (reads, writes, range/type failures, attribute services, operations with differing route paths interleaved) are run through client.connector.operate '
            'under depth {0,1,2,5,20} x multiple {0,100,250,500,4000} x fragment {False,True} (quick: a seeded subset) against the real TCP simulator, with the tag state reset in-process '
            'between settings. Every setting must yield exactly one result per operation, in order, with statuses and values equal across settings and equal to the array model. Every bundle '
            'sent is inspected: all member operations must share the route and send path the bundle was sent with. Operation strings in every documented form (tag or @class/instance/attribute, '
            '[i], [i-j], *n, +offset, =(TYPE)v,v) are printed from structures and must parse to exactly those structures; format_path output must parse back to the same segments. '
            'get_attribute.proxy.read (built on the same pipeline) is run over attribute lists (tag reads/writes as strings, typed @class/instance/attribute reads) under several (depth, multiple) '
            'settings: one value per attribute, in order, equal to the model and equal across settings.',
    'note': 'Operations naming unknown tags are excluded (alone they are refused by the encapsulation and end the session, in a bundle they get a CIP status: a documented difference, see C06/C07).',
}
LEVEL = META['level']
RULE = ('a case = one (operation list, setting) execution compared with the reference execution and the model, or one operation string parsed; distinct by (list, setting) / string; '
        'non-trivial = the list has >= 2 operations and the setting pipelines or bundles')
ASSUMPTIONS = ['tag state is reset in-process between settings (the simulator runs in a thread of the checking process)']
REQUIRED = ['strings:composed-of-syntax-characters', 'proxy:same-attribute-declared-as-different-types', 'lists', 'settings', 'setting:synchronous', 'setting:pipelined', 'setting:bundled', 'setting:fragment', 'ops:read', 'ops:write', 'ops:failing', 'ops:attribute', 'ops:attribute-refused-bare-status', 'ops:no-route-path-next-to-default',
            'bundles:seen', 'bundles:multi-member', 'monitor:paths-in-bundle', 'ops:differing-route-paths', 'strings:parsed', 'strings:write-cast', 'strings:range', 'strings:offset',
            'strings:numeric-path', 'strings:text-values', 'strings:four-term-numeric-path', 'paths:format-parse', 'monitor:model-compare', 'proxy:lists']
TIMEOUT = {'quick': 300, 'thorough': 2400}
SOFT = {'quick': 40, 'thorough': 900}

CFG = [('A', 'DINT', 20, None), ('B', 'INT', 8, '0x93/1/2'), ('C', 'REAL', 4, None), ('D', 'SINT', 1, None), ('Big', 'DINT', 300, None)]


def shards(tier):
    return 4 if tier == 'quick' else 16


# ---------------------------------------------------------------- operation descriptions
def print_op(spec):
    t = spec['tag']
    if spec.get('index') is not None:
        if spec.get('count') is not None and spec.get('count_form') == 'range':
            t += '[%d-%d]' % (spec['index'], spec['index'] + spec['count'] - 1)
        else:
            t += '[%d]' % spec['index']
    if spec.get('count') is not None and spec.get('count_form') == 'star':
        t += '*%d' % spec['count']
    if spec.get('offset') is not None:
        t += ' + %d' % spec['offset'] if spec.get('spaces') else '+%d' % spec['offset']
    if spec.get('write') is not None:
        typ, vals = spec['write']
        q = lambda v: repr(v) if not isinstance(v, str) else '"%s"' % v.replace('"', '""')          # CSV quoting: a quote inside is doubled
        txt = (', ' if spec.get('spaces') else ',').join(q(v) for v in vals)
        t += (' = ' if spec.get('spaces') else '=') + ('(%s)' % typ if typ else '') + txt
    return t


def expected_op(spec, fragment=False):
    from vlib import refcodec as rc
    tag = spec['tag']
    if tag.startswith('@'):
        parts = tag[1:].split('/')
        segs = [{k: int(p, 0)} for k, p in zip(('class', 'instance', 'attribute'), parts)]
    else:
        segs = [{'symbolic': s} for s in tag.split('.')]
    if spec.get('index') is not None:
        segs.append({'element': spec['index']})
    op = {'path': segs}
    if spec.get('count') is not None:
        op['elements'] = spec['count']
    if spec.get('offset') is not None:
        op['offset'] = spec['offset']
    if spec.get('write') is not None:
        typ, vals = spec['write']
        op['method'] = 'write'
        if typ is None:
            typ = 'REAL' if any(isinstance(v, float) for v in vals) else 'INT'
        op['tag_type'] = rc.NAME2CODE[typ]
        op['data'] = list(vals)
        if 'elements' not in op and spec.get('offset') is None and not fragment:
            op['elements'] = len(vals)
    return op


def gen_spec(rng, failing_ok=True):
    name, t, n, address = rng.choice(CFG)
    numeric = bool(address) and rng.random() < 0.5
    spec = {'tag': ('@' + address) if numeric else name, 'spaces': rng.random() < 0.2}
    kind = rng.choice(['read', 'read', 'write', 'write', 'fail-range', 'fail-type']) if failing_ok else rng.choice(['read', 'write'])
    scalar = n == 1
    if kind in ('read', 'write'):
        i = rng.randrange(n)
        cnt = rng.randrange(1, min(n - i, 12) + 1)
        if name == 'Big' and kind == 'read' and rng.random() < 0.4:
            i, cnt = rng.choice([(0, 300), (10, 200), (0, 122), (0, 123)])
    elif kind == 'fail-range':
        i = rng.choice([n - 1, n, n + 3])
        cnt = rng.choice([2, 5]) if i == n - 1 else 1
    else:
        i, cnt = 0, 1
    if not scalar or i:
        spec['index'] = i
    form = rng.choice(['range', 'star', None])
    if cnt > 1 or (form and spec.get('index') is not None):
        spec['count'] = cnt
        spec['count_form'] = form or 'range'
        if spec['count_form'] == 'range' and spec.get('index') is None:
            spec['index'] = i
    else:
        cnt = 1
    if kind in ('write', 'fail-range') and (kind == 'write' or rng.random() < 0.5) or kind == 'fail-type':
        from vlib import gen
        if kind == 'fail-type':
            typ = 'STRING' if t != 'STRING' else 'INT'
            vals = ['abc'] if typ == 'STRING' else [1]
            vals = vals * cnt
        else:
            typ = t
            if t in ('REAL', 'LREAL'):
                vals = [rng.randrange(-1000, 1000) + 0.5 for _ in range(cnt)]
            else:
                vals = [int(v) for v in gen.typed_values(rng, t, cnt)]
        explicit = rng.random() < 0.8 or typ not in ('INT', 'REAL')
        if not explicit and typ == 'REAL' and not all(isinstance(v, float) for v in vals):
            explicit = True
        spec['write'] = (typ if explicit else None, vals)
    return kind, spec


# ---------------------------------------------------------------- (c) strings
STRING_VALUES = ['abc', 'a,b', 'C:\\plc\\new', '\\\\srv\\share', 'a\\tb', 'say "hi"', ' lead', 'x=1', 'a+b', '(INT)5', '1.5', 'tail\\', "it's", 'a[0-3]*2', 'é', '', 'say "hi" , then go', 'x" ,y', 'q"\t,', '" ', ' "', '",', ', ']


def four_term_paths(ctx, rng):
    """The documented four-term numeric form @class/instance/attribute/element, alone, with a replacing [index] or [a-b], with *count,
    parsed one after the other in every order: each string denotes its own segments whatever was parsed before it."""
    from cpppo.server.enip import client
    c, i, a = rng.choice([(0x22, 1, 2), (0x93, 1, 2), (0x401, 3, 7)])
    e = rng.randrange(0, 9)
    base = '@0x%x/%d/%d/%d' % (c, i, a, e)
    j = e + 1 + rng.randrange(5)
    forms = [(base, e, None), ('%s[%d]' % (base, j), j, None), (base, e, None), ('%s[%d-%d]' % (base, j, j + 2), j, 3), ('%s*2' % base, e, 2), (base, e, None),
             ('@0x%x/%d/%d[%d]' % (c, i, a, j), j, None), (base, e, None)]
    rng.shuffle(forms)
    forms.append((base, e, None))
    held = []
    for text, elm, cnt in forms:
        op, = list(client.parse_operations([text]))
        held.append((text, elm, cnt, op))
        ctx.count('strings:four-term-numeric-path')
        ctx.case(('4term', text, len(held)))
    # judged at the end: a parse result, once returned, is the caller's -- later parses must not have changed it either
    for text, elm, cnt, op in held:
        want = [{'class': c}, {'instance': i}, {'attribute': a}, {'element': elm}]
        got = [dict(s_) for s_ in op['path']]
        if got != want or op.get('elements') != cnt:
            ctx.violation('operation-string-misparsed', 'parse_operations(%r) (among %r): path %r elements %r, spelled %r elements %r' % (
                text, [f[0] for f in forms], got, op.get('elements'), want, cnt), {'text': text, 'sequence': [f[0] for f in forms]})
            return


def strings_part(ctx, rng, n):
    from cpppo.server.enip import client, device
    for _ in range(6):
        four_term_paths(ctx, rng)
    for k_ in range(n):
        kind, spec = gen_spec(rng)
        if k_ % 8 == 0:
            # text values: everything between the quotes is the value, character for character
            cnt = rng.choice([1, 1, 2, 3])
            vals = [rng.choice(STRING_VALUES) for _ in range(cnt)]
            for j in range(cnt):
                if rng.random() < 0.3:
                    # composed of the characters the value syntax itself uses (quote, comma, blank, tab, backslash), in any order
                    vals[j] = ''.join(rng.choice(['"', '"', ',', ' ', ' ', '\t', 'a', 'b', '\\', "'", '=']) for _ in range(rng.randrange(1, 8)))
                    ctx.count('strings:composed-of-syntax-characters')
            if all(v == '' for v in vals):
                vals[0] = 'abc'
            spec = {'tag': 'Txt', 'index': rng.randrange(4), 'spaces': rng.random() < 0.3, 'write': (rng.choice(['SSTRING', 'STRING']), vals)}
            if cnt > 1:
                spec['count'], spec['count_form'] = cnt, rng.choice(['range', 'star'])
            ctx.count('strings:text-values')
        if rng.random() < 0.25 and spec.get('write') is None and spec.get('count') is not None:
            spec['offset'] = rng.choice([0, 4, 8, 40])
        text = print_op(spec)
        frag = rng.random() < 0.3
        if spec.get('write') is not None and (frag or spec.get('offset') is not None) and spec.get('count') is None:
            frag = False
            spec.pop('offset', None)
            text = print_op(spec)
        if spec.get('write') is not None and spec['write'][0] in ('STRING', 'SSTRING'):
            frag = False        # fragmented writes of variable-size elements are documented as unsupported
        want = expected_op(spec, frag)
        ctx.count('strings:parsed')
        ctx.case(('str', text, frag))
        if spec.get('write') is not None and spec['write'][0]:
            ctx.count('strings:write-cast')
        if spec.get('count_form') == 'range':
            ctx.count('strings:range')
        if spec.get('offset') is not None:
            ctx.count('strings:offset')
        if spec['tag'].startswith('@'):
            ctx.count('strings:numeric-path')
        try:
            got, = list(client.parse_operations([text], fragment=frag))
        except Exception as exc:
            ctx.violation('operation-string-rejected', 'parse_operations(%r) raised %r' % (text, exc), {'text': text, 'spec': spec})
            continue
        got = dict(got)
        mism = []
        for k, v in want.items():
            g = got.get(k)
            if k == 'path':
                g = [dict(s) for s in g]
            if k == 'data':
                ok = len(g) == len(v) and all((a == b and type(a) is type(b)) or (isinstance(b, float) and abs(a - b) < 1e-9) for a, b in zip(g, v))
            else:
                ok = g == v
            if not ok:
                mism.append('%s: parsed %r, spelled %r' % (k, g, v))
        for k in got:
            if k not in want and k not in ('method',):
                mism.append('unexpected %s=%r' % (k, got[k]))
        if mism:
            ctx.violation('operation-string-misparsed', 'parse_operations(%r): %s' % (text, '; '.join(mism[:3])), {'text': text, 'spec': spec})
        # formatted path parses back
        segs = want['path']
        try:
            ftxt = client.format_path(segs, count=want.get('elements') if any('element' in s for s in segs) else None)
            back, elm, cnt = device.parse_path_elements(ftxt)
            ctx.count('paths:format-parse')
            if [dict(s) for s in back] != segs or (cnt is not None and cnt != want.get('elements')):
                ctx.violation('formatted-path-does-not-parse-back', 'format_path(%r) = %r parses to %r (count %r)' % (segs, ftxt, back, cnt), {'segments': segs})
        except Exception as exc:
            ctx.violation('formatted-path-does-not-parse-back', 'format_path/parse_path on %r raised %r' % (segs, exc), {'segments': segs})


# ---------------------------------------------------------------- (a)+(b) differential execution
def normalise(val):
    if val is None or val is True:
        return val
    return [round(float(v), 6) if isinstance(v, float) else (int(v) if not isinstance(v, (bool, str)) else v) for v in val]


def model_expect(model, ops):
    """-> list of (status, value) as the client reports them"""
    from vlib import refcodec as rc
    out = []
    for op in ops:
        segs = [dict(s) for s in op['path']]
        method = op.get('method', 'write' if 'data' in op else 'read')
        if method == 'read':
            rep = model.read(segs, op.get('elements', 1), offset=op.get('offset') or None)
            key = 'read_frag' if 'read_frag' in rep else 'read_tag'
            if rep['status'] in (0, 6):
                out.append((rep['status'], normalise(rep[key]['data'])))
            else:
                out.append(((rep['status'], rep['status_ext']['data']) if 'status_ext' in rep else rep['status'], None))
        elif method == 'write':
            rep = model.write(segs, op['tag_type'], op['data'], count=op.get('elements', len(op['data'])), offset=op.get('offset') or None)
            out.append((0, True) if rep['status'] == 0 else (((rep['status'], rep['status_ext']['data']) if 'status_ext' in rep else rep['status']), None))
        elif method == 'get_attribute_single':
            rep = model.get_attribute_single(segs)
            out.append((0, rep['get_attribute_single']['data']) if rep['status'] == 0 else ('fail', None))
        elif method == 'set_attribute_single':
            rep = model.set_attribute_single(segs, op['data'])
            out.append((0, True) if rep['status'] == 0 else ('fail', None))
    return out


def run_list(ctx, sim, rng, nops, settings):
    from cpppo.server.enip import client
    from vlib import arraymodel, gen, refcodec as rc
    specs, ops = [], []
    routes = [None, [{'port': 1, 'link': 0}], [{'port': 1, 'link': 1}], False, []]      # None = the default route 1/0; False / [] = no route path at all
    differing = rng.random() < 0.4
    for _ in range(nops):
        r = rng.random()
        if r < 0.18:
            # attribute services as pass-through dict operations
            c, i, a = 0x93, 1, 2
            k_ = rng.random()
            if k_ < 0.25:
                # refused with a bare status (no extended status words): an attribute the instance does not have
                op = {'method': 'get_attribute_single', 'path': [{'class': c}, {'instance': i}, {'attribute': 77}], 'data_size': 16}
                ctx.count('ops:attribute-refused-bare-status')
            elif k_ < 0.4:
                # ... or a Set Attribute Single whose data does not fill the attribute
                op = {'method': 'set_attribute_single', 'path': [{'class': c}, {'instance': i}, {'attribute': a}], 'data': [1, 2, 3], 'elements': 3, 'tag_type': 0xC6}
                ctx.count('ops:attribute-refused-bare-status')
            elif k_ < 0.7:
                op = {'method': 'get_attribute_single', 'path': [{'class': c}, {'instance': i}, {'attribute': a}], 'data_size': 16}
            else:
                vals = gen.typed_values(rng, 'INT', 8)
                raw = list(b''.join(rc.enc_scalar('INT', v) for v in vals))
                op = {'method': 'set_attribute_single', 'path': [{'class': c}, {'instance': i}, {'attribute': a}], 'data': raw, 'elements': len(raw), 'tag_type': 0xC6}
            specs.append(('attr', op))
        else:
            kind, spec = gen_spec(rng)
            specs.append((kind, print_op(spec)))
            op = None
        kw = {}
        if differing:
            rp = rng.choice(routes)
            if rp is not None:
                kw['route_path'] = rp
                if rp:
                    kw['send_path'] = '@6/1'
                else:
                    ctx.count('ops:no-route-path-next-to-default')
        parsed, = list(client.parse_operations([op if op is not None else specs[-1][1]], **kw))
        ops.append(parsed)
    for kind, _ in specs:
        ctx.count('ops:' + {'read': 'read', 'write': 'write', 'attr': 'attribute'}.get(kind, 'failing'))
    if differing:
        ctx.count('ops:differing-route-paths')
    wit = {'operations': [s[1] if isinstance(s[1], str) else 'dict:' + s[1]['method'] for s in specs], 'route_paths': [o.get('route_path') for o in ops] if differing else None}
    # initial state
    init = {name: gen.typed_values(rng, t, n) for name, t, n, a in CFG}

    def reset():
        for name, t, n, a in CFG:
            at = sim.attributes()[name]
            if at.scalar:
                at[0] = init[name][0]
            else:
                at[0:n] = list(init[name])
    model = arraymodel.Model(CFG)
    for name, t, n, a in CFG:
        model.tags[name.lower()].values[:] = list(init[name])
    expect = model_expect(model, ops)
    ctx.count('lists')
    reference = None
    for depth, multiple, fragment in settings:
        reset()
        bundles = []
        conn = client.connector(host=sim.address[0], port=sim.address[1], timeout=10)
        orig_multiple = conn.multiple

        def spy(request, **kw):
            bundles.append((len(request), kw.get('route_path'), kw.get('send_path')))
            return orig_multiple(request=request, **kw)
        conn.multiple = spy
        w = dict(wit, depth=depth, multiple=multiple, fragment=fragment)
        try:
            with conn:
                res = [(idx, sts, normalise(val)) for idx, dsc, req, rpy, sts, val in
                       conn.operate((dict(o) for o in ops), depth=depth, multiple=multiple, fragment=fragment, timeout=10)]
        except Exception as exc:
            ctx.violation('client-raises-on-healthy-connection', 'depth=%d multiple=%d fragment=%r: %r' % (depth, multiple, fragment, exc), w)
            return
        finally:
            conn.close()
        ctx.count('settings')
        ctx.count('setting:' + ('synchronous' if not depth else 'pipelined'))
        if multiple:
            ctx.count('setting:bundled')
        if fragment:
            ctx.count('setting:fragment')
        ctx.case((tuple(wit['operations']), depth, multiple, fragment), nontrivial=len(ops) >= 2 and bool(depth or multiple))
        if len(res) != len(ops):
            ctx.violation('result-count-differs-from-operation-count', 'depth=%d multiple=%d fragment=%r: %d results for %d operations' % (depth, multiple, fragment, len(res), len(ops)), w)
            return
        if [r[0] for r in res] != sorted(r[0] for r in res):
            ctx.violation('results-out-of-order', 'depth=%d multiple=%d fragment=%r: result indices %r' % (depth, multiple, fragment, [r[0] for r in res][:20]), w)
            return
        got = [(s, v) for _, s, v in res]
        ctx.count('monitor:model-compare')
        for k, ((gs, gv), (ws, wv)) in enumerate(zip(got, expect)):
            ok = (gv == wv) and (gs == ws or (ws == 'fail' and gs not in (0, 6)) or (isinstance(gs, tuple) and isinstance(ws, tuple) and gs[0] == ws[0] and list(gs[1]) == list(ws[1])))
            if not ok:
                key = 'client-result-differs-from-model'
                ctx.violation(key, 'depth=%d multiple=%d fragment=%r: operation %d (%s) -> status %r value %r, model status %r value %r' % (
                    depth, multiple, fragment, k, wit['operations'][k], gs, gv if gv is None or gv is True else gv[:6], ws, wv if wv is None or wv is True else wv[:6]), w)
                return
        if reference is None:
            reference = got
        elif got != reference:
            k = next(i for i, (a, b) in enumerate(zip(got, reference)) if a != b)
            ctx.violation('results-depend-on-depth-or-bundling', 'depth=%d multiple=%d fragment=%r: operation %d differs from the first setting: %r vs %r' % (
                depth, multiple, fragment, k, got[k], reference[k]), w)
            return
        # (b) bundle composition
        pos = 0
        ctx.count('bundles:seen', len(bundles))
        for nmem, rp, sp in bundles:
            if nmem > 1:
                ctx.count('bundles:multi-member')
            ctx.count('monitor:paths-in-bundle')
            members = ops[pos:pos + nmem]
            pos += nmem
            for m in members:
                if m.get('route_path') != rp or m.get('send_path') != sp:
                    ctx.violation('bundle-mixes-route-or-send-paths', 'a bundle sent with route_path %r / send_path %r contains an operation with route_path %r / send_path %r' % (
                        rp, sp, m.get('route_path'), m.get('send_path')), w)
                    return
    if ctx.want_sample():
        ctx.sample({'operations': wit['operations'][:6], 'settings_run': len(settings), 'results_first': [repr(x)[:60] for x in (reference or [])[:3]]})


def proxy_part(ctx, sim, rng, rounds):
    """get_attribute.proxy.read is built on the same pipeline: one value per attribute, in order, whatever depth/multiple the proxy uses"""
    from cpppo.server.enip import client, get_attribute
    from vlib import arraymodel, gen
    for rnd in range(rounds):
        if ctx.expired():
            break
        n = rng.choice([1, 3, 8, 20]) if rnd else 8
        attrs, ops = [], []
        for _k in range(n):
            if rng.random() < 0.25 or (rnd == 0 and _k in (2, 3, 6)):
                # the same attribute may be asked for several times in one list, each time declared as a different type
                tname = rng.choice(['INT', 'INT', 'SINT', 'UINT', 'USINT', 'DINT', 'UDINT']) if rnd or _k not in (2, 3) else ('INT', 'SINT')[_k - 2]
                attrs.append(('@0x93/1/2', tname))
                ops.append({'method': 'get_attribute_single', 'path': [{'class': 0x93}, {'instance': 1}, {'attribute': 2}], 'declared': tname})
            else:
                kind, spec = gen_spec(rng)
                attrs.append(print_op(spec))
                ops.append(list(client.parse_operations([attrs[-1]]))[0])
        init = {name: gen.typed_values(rng, t, n_) for name, t, n_, a in CFG}
        model = arraymodel.Model(CFG)
        for name, t, n_, a in CFG:
            model.tags[name.lower()].values[:] = list(init[name])
        expect = []
        for op, (ws, wv) in zip(ops, model_expect(model, ops)):
            if op.get('method') == 'get_attribute_single' and wv is not None:
                raw = bytes(wv)
                import struct
                fmt = {'INT': 'h', 'SINT': 'b', 'UINT': 'H', 'USINT': 'B', 'DINT': 'i', 'UDINT': 'I'}[op['declared']]
                wv = list(struct.unpack('<%d%s' % (len(raw) // struct.calcsize(fmt), fmt), raw))
            expect.append(wv)
        declared = [op['declared'] for op in ops if 'declared' in op]
        if len(set(declared)) > 1:
            ctx.count('proxy:same-attribute-declared-as-different-types')
        wit = {'proxy_attributes': [a if isinstance(a, str) else list(a) for a in attrs]}
        reference = None
        for depth, multiple in [(1, 0)] + rng.sample([(2, 0), (5, 0), (1, 250), (3, 500), (20, 4000), (2, 100)], 3):
            for name, t, n_, a in CFG:
                at = sim.attributes()[name]
                if at.scalar:
                    at[0] = init[name][0]
                else:
                    at[0:n_] = list(init[name])
            via = get_attribute.proxy(host=sim.address[0], port=sim.address[1], timeout=10, depth=depth, multiple=multiple, identity_default='verif')
            w = dict(wit, depth=depth, multiple=multiple)
            try:
                with via:
                    got = [normalise(v) for v in via.read(list(attrs))]
            except Exception as exc:
                ctx.violation('client-raises-on-healthy-connection', 'proxy depth=%d multiple=%d: %r' % (depth, multiple, exc), w)
                return
            finally:
                via.close_gateway()
            ctx.count('proxy:reads')
            ctx.case(('proxy', repr(attrs), depth, multiple), nontrivial=len(attrs) >= 2 and bool(depth > 1 or multiple))
            if len(got) != len(attrs):
                ctx.violation('result-count-differs-from-operation-count', 'proxy depth=%d multiple=%d: %d values for %d attributes' % (depth, multiple, len(got), len(attrs)), w)
                return
            for k, (g, e) in enumerate(zip(got, expect)):
                if g != e:
                    ctx.violation('client-result-differs-from-model', 'proxy depth=%d multiple=%d: attribute %d (%r) -> %r, model %r' % (depth, multiple, k, attrs[k], g if not isinstance(g, list) else g[:6], e if not isinstance(e, list) else e[:6]), w)
                    return
            if reference is None:
                reference = got
            elif got != reference:
                ctx.violation('results-depend-on-depth-or-bundling', 'proxy depth=%d multiple=%d differs from the first setting' % (depth, multiple), w)
                return
        ctx.count('proxy:lists')


def run(ctx):
    from vlib import simdrv, reqgen
    rng = ctx.rng
    quick = ctx.tier == 'quick'
    strings_part(ctx, rng, 400 if quick else 20000)
    sim = simdrv.TcpSim(reqgen.argv_of(CFG))
    try:
        proxy_part(ctx, sim, rng, 4 if quick else 60)       # first: the main loop below runs until the soft budget is used up
        grid = [(d, m, f) for d in (0, 1, 2, 5, 20) for m in (0, 100, 250, 500, 4000) for f in (False, True)]
        k = 0
        while not ctx.expired():
            k += 1
            if quick and k > 6:
                break
            nops = rng.choice([1, 3, 8, 20, 40] if quick else [1, 3, 8, 20, 40, 80])
            settings = [(0, 0, False)] + (rng.sample(grid, 7) if quick else grid)
            run_list(ctx, sim, rng, nops, settings)
    finally:
        sim.stop()


def replay(ctx, witness):
    ctx.inconclusive_because('re-run by seed')
